#!/venv/bin/python
"""make a replay file from a hand-written record: tools_mkreplay.py <out.json> <property> '<json record>'
The record is executed (pristine) against VERIF_REPO (default /repo) and the observed violation becomes `expect`."""
import json, os, sys
sys.path.insert(0, os.path.dirname(os.path.abspath(__file__)))
from sim import launcher
from sim.runner import engine_mod

out, prop, rec = sys.argv[1], sys.argv[2], json.loads(sys.argv[3])
rec.setdefault("engine", "history")
rec.setdefault("property", prop)
rec["config"].setdefault("hashseed", 0)
rec["config"].setdefault("lru", 10000)
rec["config"].setdefault("reuse", False)
rec["config"].setdefault("salt", 0)
res = launcher.exec_remote(rec["engine"], [rec], rec["config"]["hashseed"])
print(res.get("status"), json.dumps(res.get("violation"))[:300])
if res.get("status") == "violation":
    p = launcher.write_replay(prop, [rec], res, "tmp")
    os.replace(p, out)
    print("written", out)
