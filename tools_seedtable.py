#!/venv/bin/python
"""print the markdown table of DESIGN 9.6 from seeded/*/meta.json"""
import json, os, re, sys
root = os.path.join(os.path.dirname(os.path.abspath(__file__)), "seeded")
only = sys.argv[1:]  # optional id suffixes, e.g. m3 m4
for d in sorted(os.listdir(root)):
    f = os.path.join(root, d, "meta.json")
    if not os.path.exists(f) or (only and not any(d.endswith(o) for o in only)):
        continue
    m = json.load(open(f))
    note = m["needs_to_manifest"].strip().splitlines()
    first = next((l for l in note if l.lower().startswith(("change", "- change", "**change"))), note[0] if note else "")
    first = re.sub(r"^[-*#\s]*\**change[^:]{0,12}:?\**:?\s*", "", first, flags=re.I).replace("|", "/")[:200]
    checks = ", ".join(f"{k}: {'caught' if v['detected'] else 'not caught'}" for k, v in m["checks_run_against_it"].items())
    fp = m.get("final_pass") or {}
    if not fp:
        final = "-"
    elif not fp.get("applies"):
        final = "patch no longer applies"
    else:
        final = f"{fp['check']}: {'caught' if fp.get('detected') else 'not caught'}"
    for k, v in m.items():
        if k.startswith("final_pass_") and v.get("applies"):
            final += f"; {v['check']}: {'caught' if v.get('detected') else 'not caught'}"
    if m.get("note"):
        final += " (see note)"
    print(f"| {m['id']} | {m['breaks_property']} | {first} | {checks} | {final} |")
