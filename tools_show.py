#!/venv/bin/python
"""print replay files compactly"""
import json, sys
for f in sys.argv[1:]:
    r = json.load(open(f))
    print("==", f, r["expect"]["signature"])
    for rec in r["records"]:
        print("  cfg", {k: v for k, v in rec["config"].items() if k not in ("prewarm",)})
        for o in rec["ops"]:
            print("     ", json.dumps(o))
        if rec.get("faults"): print("   faults", rec["faults"])
    print("  ->", json.dumps(r["expect"]["violation"]["detail"])[:500])
