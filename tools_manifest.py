#!/venv/bin/python
"""(re)generate MANIFEST.json from the tables in sim/launcher.py + the N/A reasons below; validates it."""
import json, os, sys
sys.path.insert(0, os.path.dirname(os.path.abspath(__file__)))
from sim.launcher import PROPS

NA = {
 "C01": "pure function of the operation tree (rewriting/folding while building); no schedule, fault, clock or mutable history for a simulator to own - a job for a decision procedure over inputs. The simulator only uses it as an alphabet filter.",
 "C02": "pure function of operands and rounding mode (concrete folding vs SMT-LIB FloatingPoint); no state, time or interleaving involved.",
 "C03": "pure function of the string operands; no state, time or interleaving involved.",
 "C04": "crash/hang while *building* is caused by argument values only; there is no fault or schedule to inject.",
 "C05": "node metadata is derived from the node's own arguments at construction; pure function of the built tree.",
 "C07": "which annotations survive a rewrite is a pure function of the tree being built.",
 "C08": "replace/canonicalize/ITE utilities/identical are pure functions of their arguments (weak memo tables hold results of those same pure functions).",
 "C09": "Z3 round trip is a pure function of the expression; only its last sentence (simplify() keeps a solver's models) is history-flavoured and that is exercised as the simplify op inside the C11-C14 machines.",
 "C21": "strided-interval transfer functions are pure functions of the operand intervals.",
 "C22": "lattice operations and queries of strided intervals are pure functions of their operands.",
 "C23": "discrete interval sets / value sets: pure functions of their operands.",
 "C24": "VSA evaluation is a pure function of the expression and its annotations (the SolverVSA sentence is exercised by C13's containment oracle).",
 "C25": "constraint_to_si is a pure function of the constraint (its consequence for replacement/hybrid solvers is exercised by C13).",
}
PENDING = "deterministic-simulation check designed in DESIGN.md but not registered yet (under construction in this session)"

def main():
    ids = [json.loads(l)["id"] for l in open("properties.jsonl")]
    checks = []
    for pid in ids:
        if pid not in PROPS or PROPS[pid].get("unregistered"):
            continue
        P = PROPS[pid]
        checks.append({
            "property_id": pid,
            "quick_cmd": f"/venv/bin/python verif.py {pid} --tier quick",
            "thorough_cmd": f"/venv/bin/python verif.py {pid} --tier thorough",
            "evidence_file": f"/verif/evidence/{pid}.json",
            "replay_cmd_template": f"/venv/bin/python verif.py {pid} --replay {{path}}",
            "engine": P["engine"],
            "level_claimed": {"category": P.get("level", "exploration"), "text": P["level_text"], "design_ref": P.get("design_ref", "DESIGN.md 5")},
            "level_note": P["level_note"],
            "technique": P.get("technique", "deterministic simulation with fault injection: seeded operation/fault histories against real claripy+Z3, reference-model oracle after every step"),
        })
    na = []
    for pid in ids:
        if any(c["property_id"] == pid for c in checks):
            continue
        na.append({"property_id": pid, "reason": NA.get(pid, PENDING)})
    m = {
        "version": 1,
        "setup_cmd": "/venv/bin/python verif.py selftest-setup",
        "hooks": {"guard": "CLARIPY_VERIF", "enable": "none needed: every seam is reached by run-time substitution (z3.Solver.check, backend_z3._gc_lock/gc, Frontend.__hash__); claripy is imported editable from /repo's working tree",
                  "baseline_off_cmd": "cd /repo && /venv/bin/python -m pytest -ra -q -p no:cacheprovider --timeout=900 --continue-on-collection-errors",
                  "source_commits": [], "add_only": True},
        "engines": [
            {"name": n, "path": p_, "serves_properties": [q for q in ids if q in PROPS and PROPS[q]["engine"] == n], "kind_free_text": t}
            for n, p_, t in [
                ("history", "sim/engine_history.py", "solver-history machine: seeded op/fault/restart histories on real frontends, enumeration reference, fork-confirmed minimised replays"),
                ("values", "sim/engine_values.py", "value-extraction histories (wide BV / FP / strings) with an independent-Z3 oracle"),
                ("hashcons", "sim/engine_hashcons.py", "construction / GC / pickle event histories over harness-owned references"),
                ("gcguard", "sim/engine_gcguard.py", "baton thread scheduler over the real GC guard, line and bytecode pre-emption"),
                ("threads", "sim/engine_threads.py", "baton thread scheduler over full-stack solver histories, per-thread oracles, context-confinement monitor"),
            ]
        ],
        "checks": checks,
        "not_applicable": na,
        "notes": "See DESIGN.md. Exit codes: 0 held, 1 VIOLATION, 2 harness problem (never reported as a violation).",
    }
    json.dump(m, open("MANIFEST.json", "w"), indent=1)
    try:
        import jsonschema
        jsonschema.validate(m, json.load(open("/root/.vp/MANIFEST.schema.json")))
        print("manifest valid;", len(checks), "checks,", len(na), "n/a")
    except ImportError:
        print("written (jsonschema not available here)")

main()
