#!/bin/bash
# sweep: every registered check, several seeds; prints one summary line per (prop, seed)
seeds=${SEEDS:-"1 2 3"}
props=${PROPS:-"C06 C10 C11 C12 C13 C14 C15 C16 C17 C18 C19 C20 C26"}
for s in $seeds; do for p in $props; do
  out=$(VERIF_SEED=$s timeout 1500 /venv/bin/python verif.py $p --tier quick 2>&1)
  rc=$?
  echo "== $p seed=$s rc=$rc $(echo "$out" | grep '^runs=' | tail -1)"
  echo "$out" | grep -E "^VIOLATION|^  signature|^HARNESS|^NOT-REPRODUCED|^NOTE" | cut -c1-400
done; done
