#!/venv/bin/python
"""Entry point.  verif.py <Cxx> [--tier quick|thorough] [--replay FILE] [--runs N] | _group | selftest-..."""
import argparse
import os
import sys

sys.path.insert(0, os.path.dirname(os.path.abspath(__file__)))


def main():
    if len(sys.argv) > 1 and sys.argv[1] == "_group":
        from sim.runner import group_main

        group_main()
        return 0
    if len(sys.argv) > 1 and sys.argv[1] == "_resume":
        from sim.resume import main as resume_main

        resume_main()
        return 0
    if len(sys.argv) > 1 and sys.argv[1] == "_exprfresh":
        from sim.engine_exprfresh import child_main

        child_main()
        return 0
    ap = argparse.ArgumentParser()
    ap.add_argument("prop")
    ap.add_argument("--tier", default=os.environ.get("VERIF_TIER", "quick"), choices=["quick", "thorough"])
    ap.add_argument("--replay")
    ap.add_argument("--runs", type=int)
    ap.add_argument("--seed", type=int)
    ap.add_argument("--profile")
    a = ap.parse_args()
    from sim import launcher

    if a.prop.startswith("selftest"):
        from sim import selftest

        return selftest.main(a)
    if a.replay:
        return launcher.replay_main(a.prop, a.replay)
    opts = {"profile": a.profile} if a.profile else None
    return launcher.check_main(a.prop, a.tier, seed=a.seed, runs=a.runs, opts=opts)


if __name__ == "__main__":
    sys.exit(main())
