#!/venv/bin/python
"""Evaluate a seeded change: tools_mutant.py <dir with patch.diff [+ demo.py]> <Cxx> [<Cyy> ...] [--tier quick] [--runs N]
Applies the patch in a scratch worktree of /repo HEAD (never in /repo), runs the demo on both trees, the baseline
test-suite on the mutated tree (unless --no-tests), and the given checks against the mutated tree (VERIF_REPO)."""
import argparse, json, os, subprocess, sys, shutil, time

ap = argparse.ArgumentParser()
ap.add_argument("dir")
ap.add_argument("props", nargs="+")
ap.add_argument("--runs", type=int)
ap.add_argument("--no-tests", action="store_true")
ap.add_argument("--seed", type=int)
a = ap.parse_args()
wt = f"/tmp/mw_{os.getpid()}"
subprocess.check_call(["git", "-C", "/repo", "worktree", "add", "-q", "--detach", wt, "HEAD"])
out = {"patch": os.path.join(a.dir, "patch.diff")}
try:
    demo = os.path.join(a.dir, "demo.py")
    def run_demo(tree):
        if not os.path.exists(demo):
            return None
        env = dict(os.environ, PYTHONPATH=tree, PYTHONDONTWRITEBYTECODE="1")
        p = subprocess.run(["/venv/bin/python", demo], env=env, capture_output=True, text=True, timeout=600, cwd="/tmp")
        return p.returncode
    out["demo_on_clean"] = run_demo(wt)
    subprocess.check_call(["git", "-C", wt, "apply", os.path.abspath(out["patch"])])
    out["demo_on_mutant"] = run_demo(wt)
    if not a.no_tests:
        env = dict(os.environ, PYTHONPATH=wt, PYTHONDONTWRITEBYTECODE="1")
        p = subprocess.run(["/venv/bin/python", "-m", "pytest", "-q", "-p", "no:cacheprovider", "--timeout=900", "-x", "tests/"],
                           env=env, capture_output=True, text=True, cwd=wt, timeout=1800)
        out["tests_rc"] = p.returncode
        out["tests_tail"] = p.stdout.strip().splitlines()[-1:] if p.stdout else []
    out["checks"] = {}
    for prop in a.props:
        env = dict(os.environ, VERIF_REPO=wt)
        if a.seed is not None:
            env["VERIF_SEED"] = str(a.seed)
        cmd = ["/venv/bin/python", "/verif/verif.py", prop, "--tier", "quick"]
        if a.runs:
            cmd += ["--runs", str(a.runs)]
        t = time.time()
        p = subprocess.run(cmd, env=env, capture_output=True, text=True, cwd="/verif", timeout=3000)
        lines = [l for l in p.stdout.splitlines() if l.startswith(("VIOLATION", "  signature", "runs=", "KNOWN", "HARNESS", "NOT-REPRO"))]
        out["checks"][prop] = {"rc": p.returncode, "wall_s": round(time.time() - t, 1), "lines": [l[:260] for l in lines[:8]]}
finally:
    subprocess.call(["git", "-C", "/repo", "worktree", "remove", "--force", wt])
    # replays written against the mutated tree are not findings on /repo
    for f in os.listdir("/verif/replays"):
        if f.endswith(".json"):
            os.makedirs("/verif/.work/mutant_replays", exist_ok=True)
            shutil.move(os.path.join("/verif/replays", f), os.path.join("/verif/.work/mutant_replays", f))
print(json.dumps(out, indent=1))
