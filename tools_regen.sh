#!/bin/bash
mkdir -p /verif/.work/probe
cd /verif
for id in $(jq -r '.checks[].property_id' MANIFEST.json); do
  cmd=$(jq -r --arg id $id '.checks[]|select(.property_id==$id)|.quick_cmd' MANIFEST.json)
  t=$(date +%s)
  timeout 3000 bash -c "$cmd" > .work/probe/$id.log 2>&1; rc=$?
  echo "$id exit=$rc wall=$(( $(date +%s)-t ))s vio=$(grep -c '^VIOLATION' .work/probe/$id.log) $(grep '^runs=' .work/probe/$id.log | tail -1)"
done
