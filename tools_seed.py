#!/venv/bin/python
"""Register a seeded change under /verif/seeded/<id>/ after confirming it myself:
  tools_seed.py <id> <property> <src dir with patch.diff demo.py notes.md> <eval json> 
Confirms in a scratch worktree of /repo HEAD: demo exits 0 on the clean tree and non-zero with the patch; the pinned
test-suite passes with the patch.  Check results are taken from the eval json written by tools_mutant.py."""
import json, os, shutil, subprocess, sys

sid, prop, src, evalf = sys.argv[1:5]
wt = f"/tmp/seedwt_{os.getpid()}"
subprocess.check_call(["git", "-C", "/repo", "worktree", "add", "-q", "--detach", wt, "HEAD"])
try:
    env = dict(os.environ, PYTHONPATH=wt, PYTHONDONTWRITEBYTECODE="1")
    demo = os.path.join(src, "demo.py")
    d0 = subprocess.run(["/venv/bin/python", demo], env=env, capture_output=True, text=True, cwd="/tmp", timeout=900).returncode
    subprocess.check_call(["git", "-C", wt, "apply", os.path.abspath(os.path.join(src, "patch.diff"))])
    d1 = subprocess.run(["/venv/bin/python", demo], env=env, capture_output=True, text=True, cwd="/tmp", timeout=900).returncode
    t = subprocess.run(["/venv/bin/python", "-m", "pytest", "-q", "-p", "no:cacheprovider", "--timeout=900", "tests/"], env=env,
                       capture_output=True, text=True, cwd=wt, timeout=3000)
    tests_tail = t.stdout.strip().splitlines()[-1] if t.stdout.strip() else ""
finally:
    subprocess.call(["git", "-C", "/repo", "worktree", "remove", "--force", wt])
ok = d0 == 0 and d1 != 0 and t.returncode == 0
print(sid, "demo clean rc", d0, "demo mutant rc", d1, "tests rc", t.returncode, tests_tail, "->", "KEEP" if ok else "REJECT")
if not ok:
    sys.exit(1)
ev = json.load(open(evalf)) if os.path.exists(evalf) else {"checks": {}}
out = os.path.join("/verif/seeded", sid)
os.makedirs(out, exist_ok=True)
shutil.copy(os.path.join(src, "patch.diff"), out)
shutil.copy(demo, out)
notes = open(os.path.join(src, "notes.md")).read() if os.path.exists(os.path.join(src, "notes.md")) else ""
meta = {
    "id": sid, "breaks_property": prop,
    "needs_to_manifest": notes.strip(),
    "confirmed_by_me": {"demo_rc_on_unchanged_tree": d0, "demo_rc_with_patch": d1, "baseline_tests_with_patch": tests_tail,
                        "how": "scratch git worktree of /repo HEAD (never /repo itself), PYTHONPATH=<worktree>; tools_seed.py"},
    "checks_run_against_it": {k: {"detected": v["rc"] == 1, "exit_code": v["rc"], "wall_s": v["wall_s"], "first_lines": v["lines"][:3]}
                              for k, v in ev.get("checks", {}).items()},
    "commands": [f"tools_mutant.py {src} {' '.join(ev.get('checks', {}).keys())}  (VERIF_REPO=<scratch worktree with the patch> verif.py <Cxx> --tier quick)"],
}
json.dump(meta, open(os.path.join(out, "meta.json"), "w"), indent=1)
