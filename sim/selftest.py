"""Self tests of the machinery: setup, oracle (evaluator vs Z3), determinism."""
from __future__ import annotations

import json
import os
import sys
import time

from . import spec as S
from .gen import ExprGen
from .rng import Rng


def setup():
    import cachetools  # noqa: F401
    import z3

    import claripy

    repo = os.path.realpath(os.environ.get("VERIF_REPO", "/repo"))
    where = os.path.realpath(claripy.__file__)
    if not where.startswith(repo + "/"):
        print(f"HARNESS-ERROR claripy is imported from {where}, not from {repo}")
        return 2
    print(f"setup ok: claripy {claripy.__version__} from {where}; z3 {z3.get_version_string()}")
    return 0


def oracle_selfcheck(n=300, seed=1):
    """Differential test of the trusted evaluator against Z3 (reference context).  A mismatch must abort the check
    as HARNESS-ERROR: a wrong oracle must never turn into a VIOLATION."""
    import z3

    r = Rng(seed)
    variables = {"a": 4, "b": 4, "c": 3, "p": 0}
    order = ["a", "b", "c", "p"]
    eg = ExprGen(r, variables)
    ctx = S.ref_ctx()
    bad = []
    for i in range(n):
        sp = eg.boolean(3) if i % 2 else eg.bv(r.choice([3, 4]), 3)
        f = S.compile_spec(sp, variables, order)
        t = S.build_z3ref(sp, variables, ctx)
        for _ in range(4):
            vals = [r.below(16), r.below(16), r.below(8), r.below(2)]
            sub = [(z3.BitVec("a", 4, ctx), z3.BitVecVal(vals[0], 4, ctx)), (z3.BitVec("b", 4, ctx), z3.BitVecVal(vals[1], 4, ctx)),
                   (z3.BitVec("c", 3, ctx), z3.BitVecVal(vals[2], 3, ctx)), (z3.Bool("p", ctx), z3.BoolVal(bool(vals[3]), ctx))]
            zv = z3.simplify(z3.substitute(t, *sub))
            mine = f(*vals)
            if z3.is_bool(zv):
                zz = z3.is_true(zv)
                if not (z3.is_true(zv) or z3.is_false(zv)):
                    bad.append((sp, vals, "z3 did not fold"))
                    continue
                if bool(mine) != zz:
                    bad.append((sp, vals, mine, zz))
            else:
                if int(mine) != zv.as_long():
                    bad.append((sp, vals, mine, zv.as_long()))
    return bad


def determinism(prop, nseeds=40):
    """(1) the same batch twice with the same partition (same worker count), with different environment sizes ->
    identical per-run digests, for worker counts 1, 4 and 8;  (2) single records executed twice each in pristine
    processes -> identical digests.  Across *different* partitions digests may differ for main-thread runs: a worker
    carries Z3 context state from one run to the next, which is why a run's identity is (seed, partition) and
    why violations are confirmed and replayed as explicit sequences in a pristine process."""
    from . import launcher
    from .runner import engine_mod, read_group, spawn_group

    P = launcher.PROPS[prop]
    report = {}
    base = None
    for workers in (1, 4, 8):
        outs = []
        for rep in range(2):
            os.environ["VERIF_PAD"] = "x" * (rep * 3000)
            req = {"mode": "batch", "engine": P["engine"], "prop": prop, "seed": 777, "opts": P.get("opts", {}),
                   "indices": list(range(nseeds)), "workers": workers, "limit_s": 120, "keep_every": 1}
            d = {}
            recs = {}
            for res in read_group(spawn_group(req, 0)):
                d[res["idx"]] = (res.get("status"), res.get("digest"))
                if "record" in res:
                    recs[res["idx"]] = res["record"]
            outs.append(d)
        report[f"workers={workers}"] = [i for i in range(nseeds) if outs[0].get(i) != outs[1].get(i)]
        if base is None:
            base = (outs[0], recs)
        else:
            report[f"vs-workers=1 (informational) w={workers}"] = sum(1 for i in range(nseeds) if outs[0].get(i) != base[0].get(i))
    os.environ.pop("VERIF_PAD", None)
    # pristine twice
    recs = base[1]
    pr = []
    for rep in range(2):
        d = {}
        for i in sorted(recs)[:12]:
            req = {"mode": "exec_seq", "engine": P["engine"], "records": [recs[i]], "limit_s": 120}
            res = list(read_group(spawn_group(req, 0)))[0]
            d[i] = (res.get("status"), res.get("digest"))
        pr.append(d)
    report["pristine"] = [i for i in pr[0] if pr[0][i] != pr[1][i]]
    return report


def oracle_selfcheck_strings(n=200, seed=3):
    """the string part of the evaluator against Z3's own folding of the reference term under an assignment"""
    import z3

    from .gen import STR_SHAPES, StrExprGen

    r = Rng(seed)
    ctx = S.ref_ctx()
    bad = []
    for i in range(n):
        shape = r.choice(STR_SHAPES)
        variables = {v[0]: v[1] for v in shape}
        order = [v[0] for v in shape]
        domains = {v[0]: v[2] for v in shape if len(v) > 2}
        eg = StrExprGen(r, variables, None, domains)
        sp = eg.boolean(2) if i % 2 else eg.sexpr(2)
        f = S.compile_spec(sp, variables, order)
        t = S.build_z3ref(sp, variables, ctx)
        for _ in range(3):
            vals, sub = [], []
            for nme in order:
                w = variables[nme]
                if w == -1:
                    v = r.choice(domains[nme])
                    sub.append((z3.String(nme, ctx), z3.StringVal(v, ctx)))
                elif w == 0:
                    v = r.below(2)
                    sub.append((z3.Bool(nme, ctx), z3.BoolVal(bool(v), ctx)))
                else:
                    v = r.below(1 << w)
                    sub.append((z3.BitVec(nme, w, ctx), z3.BitVecVal(v, w, ctx)))
                vals.append(v)
            zv = z3.simplify(z3.substitute(t, *sub))
            mine = f(*vals)
            if z3.is_bool(zv):
                if not (z3.is_true(zv) or z3.is_false(zv)):
                    continue  # Z3 did not fold it: no verdict
                if bool(mine) != z3.is_true(zv):
                    bad.append((sp, vals, mine, str(zv)))
            elif z3.is_string_value(zv):
                if mine != zv.as_string():
                    bad.append((sp, vals, mine, zv.as_string()))
            elif z3.is_bv_value(zv):
                if int(mine) != zv.as_long():
                    bad.append((sp, vals, mine, zv.as_long()))
    return bad


def oracle_selfcheck_wide(n=150, seed=5):
    """variable-free bit-vector trees at 8..128 bits (the truth templates of C10): evaluator against Z3's folding"""
    import z3

    from .gen import HistoryGen, PROFILES

    ctx = S.ref_ctx()
    bad = []
    for i in range(n):
        g = HistoryGen(seed * 1000 + i, PROFILES["C10"])
        for _ in range(4):
            sp = g.concrete_truth()
            mine = S.compile_spec(sp, {}, [])()
            zv = z3.simplify(S.build_z3ref(sp, {}, ctx))
            if not (z3.is_true(zv) or z3.is_false(zv)):
                continue
            if bool(mine) != z3.is_true(zv):
                bad.append((sp, mine, str(zv)))
    return bad


def main(a):
    what = a.prop
    if what == "selftest-setup":
        rc = setup()
        bad = oracle_selfcheck()
        if bad:
            print("HARNESS-ERROR evaluator disagrees with Z3:", bad[:3])
            return 2
        bad = oracle_selfcheck_strings() + oracle_selfcheck_wide()
        if bad:
            print("HARNESS-ERROR string evaluator disagrees with Z3:", bad[:3])
            return 2
        print("oracle self-check ok (300 bit-vector / Boolean trees x 4 assignments, 200 string trees x 3 assignments)")
        return rc
    if what == "selftest-oracle":
        t = time.time()
        bad = oracle_selfcheck(3000, 7) + oracle_selfcheck_strings(2000, 11) + oracle_selfcheck_wide(1500, 13)
        print("mismatches:", len(bad), bad[:3], f"{time.time() - t:.1f}s")
        return 2 if bad else 0
    if what == "selftest-determinism":
        from . import launcher

        rc = 0
        for prop in (a.profile.split(",") if a.profile else list(launcher.PROPS)):
            rep = determinism(prop, a.runs or 48)
            print(prop, json.dumps(rep))
            if any(v for k, v in rep.items() if "informational" not in k):
                rc = 2
        return rc
    print("unknown selftest")
    return 2
