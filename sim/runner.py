"""Group process, triage/minimiser (DESIGN 2).

launcher  (verif.py <prop> --tier ...)        decides the batch, spawns groups, aggregates, writes evidence
  group   (verif.py _group, stdin = request)  fresh interpreter with PYTHONHASHSEED=<h>, ASLR off; imports claripy
                                              from /repo's working tree, warms up, then only forks
    worker (forked once, persistent)          executes its static list of runs back to back, in-process
    pristine child (forked per test)          used to confirm / minimise violations and for replay

A replay file holds an explicit *sequence* of records executed in order by one fresh process; the violation is
expected in the last one.  Almost always the sequence has length 1.
"""
from __future__ import annotations

import copy
import ctypes
import gc
import hashlib
import importlib
import json
import os
import subprocess
import sys
import time

from . import forkpool, workers

VERIF = os.path.dirname(os.path.dirname(os.path.abspath(__file__)))
REPO = os.environ.get("VERIF_REPO", "/repo")
PY = "/venv/bin/python"

ENGINES = {"history": "sim.engine_history", "values": "sim.engine_values", "gcguard": "sim.engine_gcguard", "hashcons": "sim.engine_hashcons",
           "threads": "sim.engine_threads"}


def engine_mod(name):
    return importlib.import_module(ENGINES[name])


def _no_aslr():
    try:
        libc = ctypes.CDLL(None, use_errno=True)
        libc.personality(0x0040000)  # ADDR_NO_RANDOMIZE
    except Exception:  # noqa: BLE001
        pass


def repo_tree_digest():
    h = hashlib.sha256()
    root = os.path.join(REPO, "claripy")
    for dp, dn, fn in sorted(os.walk(root)):
        dn.sort()
        for f in sorted(fn):
            if f.endswith(".py"):
                p = os.path.join(dp, f)
                h.update(p[len(root):].encode())
                with open(p, "rb") as fh:
                    h.update(fh.read())
    return h.hexdigest()[:16]


# ------------------------------------------------------------------ group process
def group_main():
    """stdin: one JSON request.  stdout: JSON lines."""
    req = json.loads(sys.stdin.read())
    eng = engine_mod(req["engine"])
    eng.warmup()
    gc.collect()
    gc.freeze()
    out = sys.stdout
    nworkers = req.get("workers", 8)
    limit = req.get("limit_s", 60)
    hashseed = req.get("hashseed", 0)

    def emit(obj):
        out.write(json.dumps(obj) + "\n")
        out.flush()

    mode = req["mode"]
    if mode == "batch":
        prop, seed, opts = req["prop"], req["seed"], req.get("opts", {})
        keep_every = req.get("keep_every", 0)

        def fn(job, executed):
            idx = job["id"]
            rec = eng.generate(prop, seed, idx, opts)
            rec["config"]["hashseed"] = hashseed
            res = eng.execute(rec)
            res["idx"] = idx
            if res["status"] != "ok":
                res["record"] = res.pop("record_override", rec)
                res["prefix"] = list(executed)
            elif keep_every and idx % keep_every == 0:
                res["record"] = rec
            return res

        pool = workers.Pool(fn, nworkers)
        try:
            pool.run([{"id": i} for i in req["indices"]], lambda job, res: emit(res), limit_s=limit, epoch=req.get("epoch", 150))
        finally:
            pool.close()
    elif mode == "exec_seq":
        res = exec_seq_pristine(eng, req["records"], limit)
        emit(res)
    elif mode == "exec_seqs":
        for res in forkpool.run_jobs(lambda rs: _run_seq(eng, rs), req["sequences"], workers=min(nworkers, 8), limit_s=limit + 60):
            emit(res)
    elif mode == "triage":
        emit(triage(eng, req, nworkers, limit, hashseed))
    else:
        raise SystemExit(f"bad mode {mode}")
    emit({"group_done": True})


def spawn_group(req, hashseed=0):
    env = dict(os.environ)
    env["PYTHONHASHSEED"] = str(hashseed)
    env["PYTHONDONTWRITEBYTECODE"] = "1"
    env["VERIF_REPO"] = REPO
    env.pop("PYTHONPATH", None)
    if os.path.realpath(REPO) != "/repo":
        env["PYTHONPATH"] = REPO  # a scratch worktree under test: found before /venv's editable install of /repo
    req = dict(req)
    req["hashseed"] = hashseed
    p = subprocess.Popen([PY, os.path.join(VERIF, "verif.py"), "_group"], stdin=subprocess.PIPE, stdout=subprocess.PIPE,
                         env=env, cwd=VERIF, preexec_fn=_no_aslr, text=True)
    p.stdin.write(json.dumps(req))
    p.stdin.close()
    return p


class GroupFailed(Exception):
    pass


def read_group(p):
    finished = False
    for line in p.stdout:
        line = line.strip()
        if not line:
            continue
        try:
            o = json.loads(line)
        except ValueError:
            sys.stderr.write("group: " + line + "\n")
            continue
        if isinstance(o, dict) and o.get("group_done"):
            finished = True
            continue
        yield o
    rc = p.wait()
    if rc != 0 or not finished:
        raise GroupFailed(f"group process exited rc={rc} finished={finished}")


# ------------------------------------------------------------------ pristine execution of a sequence
def _run_seq(eng, recs):
    res = None
    for r in recs:
        res = eng.execute(r)
    return res


def exec_seq_pristine(eng, recs, limit):
    return forkpool.run_jobs(lambda rs: _run_seq(eng, rs), [recs], workers=1, limit_s=limit + 5 * len(recs))[0]


def _same(eng, res, sig):
    return res is not None and res.get("status") == "violation" and eng.signature(res) == sig


# ------------------------------------------------------------------ triage = confirm + minimise
def triage(eng, req, nworkers, limit, hashseed):
    """-> {"records": minimal sequence, "result": result of its last record | None, "tests": n, "standalone": bool}"""
    rec, sig = req["record"], req["signature"]
    budget_s = req.get("budget_s", 90)
    t0 = time.monotonic()
    tests = [0]

    def pristine(seq):
        tests[0] += 1
        return exec_seq_pristine(eng, seq, limit)

    r = pristine([rec])
    if _same(eng, r, sig):
        seq = [rec]
        standalone = True
    else:
        standalone = False
        prefix = req.get("prefix") or []
        if not prefix:
            return {"records": [rec], "result": None, "tests": tests[0], "standalone": False, "why": "not reproducible alone, no prefix"}
        precs = []
        for i in prefix:
            pr = eng.generate(req["prop"], req["seed"], i, req.get("opts", {}))
            pr["config"]["hashseed"] = hashseed
            precs.append(pr)
        seq = precs + [rec]
        r = pristine(seq)
        if not _same(eng, r, sig):
            return {"records": [rec], "result": None, "tests": tests[0], "standalone": False, "why": "not reproducible with prefix"}
        # ddmin on the prefix records
        n = 2
        while len(seq) > 1 and time.monotonic() - t0 < budget_s:
            L = len(seq) - 1
            n = min(n, L)
            size = max(1, L // n)
            hit = False
            for s in range(0, L, size):
                cand = seq[:s] + seq[s + size:]
                rr = pristine(cand)
                if _same(eng, rr, sig):
                    seq, r, hit = cand, rr, True
                    n = max(n - 1, 2)
                    break
            if not hit:
                if size == 1:
                    break
                n = min(L, n * 2)
    # minimise the last record
    head = seq[:-1]
    last, lres = seq[-1], r
    if not head:
        pool = workers.Pool(lambda job, executed: eng.execute(job["rec"]), nworkers)
        try:
            def many(cands):
                outs = {}
                pool.run([{"id": k, "rec": c} for k, c in enumerate(cands)], lambda job, res: outs.__setitem__(res["_id"], res),
                         limit_s=limit)
                tests[0] += len(cands)
                for k, c in enumerate(cands):
                    if _same(eng, outs.get(k), sig):
                        return c, outs[k]
                return None
            m, mres = minimise_record(eng, last, lres, many, t0 + budget_s)
        finally:
            pool.close()
        conf = pristine([m])
        if _same(eng, conf, sig):
            return {"records": [m], "result": conf, "tests": tests[0], "standalone": True}
        # carry-over between candidates influenced the minimiser: redo it the slow, pristine way

    def many_pristine(cands):
        for c in cands:
            rr = pristine(head + [c])
            if _same(eng, rr, sig):
                return c, rr
            if time.monotonic() - t0 > budget_s * 2:
                break
        return None

    m, mres = minimise_record(eng, last, lres, many_pristine, t0 + budget_s * 2)
    conf = pristine(head + [m])
    if _same(eng, conf, sig):
        return {"records": head + [m], "result": conf, "tests": tests[0], "standalone": standalone}
    return {"records": seq, "result": r, "tests": tests[0], "standalone": standalone}


def minimise_record(eng, rec, res, try_many, deadline):
    """ddmin over the op list, then argument shrinking.  try_many(cands) -> (cand, result) of the first candidate that
    shows the same violation class, or None."""
    best, bres = copy.deepcopy(rec), res

    def truncate(r, rs):
        k = rs["violation"]["detail"].get("op_index")
        if k is not None and k + 1 < len(r["ops"]):
            r = copy.deepcopy(r)
            r["ops"] = r["ops"][:k + 1]
            if r.get("faults"):
                r["faults"] = [f for f in r["faults"] if f["op"] <= k]
        return r

    has_ops = "ops" in best
    if has_ops:
        best = truncate(best, bres)

    def drop_ops(r, idxs):
        idxs = set(idxs)
        c = copy.deepcopy(r)
        keep = [i for i in range(len(r["ops"])) if i not in idxs]
        remap = {old: new for new, old in enumerate(keep)}
        c["ops"] = [c["ops"][i] for i in keep]
        if c.get("faults"):
            c["faults"] = [dict(f, op=remap[f["op"]]) for f in c["faults"] if f["op"] in remap]
        return c

    n = 2
    while has_ops and time.monotonic() < deadline:
        L = len(best["ops"]) - 1  # never drop the last (failing) op
        if L <= 0:
            break
        n = min(n, L)
        size = max(1, L // n)
        chunks = [list(range(i, min(i + size, L))) for i in range(0, L, size)]
        hit = try_many([drop_ops(best, ch) for ch in chunks])
        if hit is not None:
            best, bres = hit
            best = truncate(best, bres)
            n = max(n - 1, 2)
        else:
            if size == 1:
                break
            n = min(L, n * 2)
    if best.get("faults"):
        changed = True
        while changed and best["faults"] and time.monotonic() < deadline:
            changed = False
            cands = []
            for j in range(len(best["faults"])):
                c = copy.deepcopy(best)
                del c["faults"][j]
                cands.append(c)
            hit = try_many(cands)
            if hit is not None:
                best, bres = hit
                changed = True
    if hasattr(eng, "shrink_ops"):
        progress = True
        while progress and time.monotonic() < deadline:
            progress = False
            cands = [c for _, c in eng.shrink_ops(best)]
            for k in range(0, len(cands), 48):
                hit = try_many(cands[k:k + 48])
                if hit is not None:
                    best, bres = hit
                    if has_ops:
                        best = truncate(best, bres)
                    progress = True
                    break
    return best, bres
