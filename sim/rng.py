"""SplitMix64 PRNG: the one integer that decides everything.

No dependence on `random`; streams are derived by mixing a label into the seed so that
gen / fault / sched / salt choices are independent of each other.
"""
from __future__ import annotations

M64 = (1 << 64) - 1


def mix64(z: int) -> int:
    z = (z + 0x9E3779B97F4A7C15) & M64
    z = ((z ^ (z >> 30)) * 0xBF58476D1CE4E5B9) & M64
    z = ((z ^ (z >> 27)) * 0x94D049BB133111EB) & M64
    return z ^ (z >> 31)


def str64(s: str) -> int:
    h = 0xCBF29CE484222325
    for b in s.encode():
        h = ((h ^ b) * 0x100000001B3) & M64
    return h


def derive(seed: int, *labels) -> int:
    z = mix64(seed & M64)
    for lab in labels:
        v = str64(lab) if isinstance(lab, str) else (lab & M64)
        z = mix64(z ^ v)
    return z


class Rng:
    __slots__ = ("s",)

    def __init__(self, seed: int):
        self.s = seed & M64

    def next(self) -> int:
        self.s = (self.s + 0x9E3779B97F4A7C15) & M64
        z = self.s
        z = ((z ^ (z >> 30)) * 0xBF58476D1CE4E5B9) & M64
        z = ((z ^ (z >> 27)) * 0x94D049BB133111EB) & M64
        return z ^ (z >> 31)

    def below(self, n: int) -> int:
        """uniform in [0, n)"""
        if n <= 1:
            return 0
        return self.next() % n

    def range(self, lo: int, hi: int) -> int:
        """uniform in [lo, hi] inclusive"""
        return lo + self.below(hi - lo + 1)

    def chance(self, num: int, den: int = 100) -> bool:
        return self.below(den) < num

    def choice(self, seq):
        return seq[self.below(len(seq))]

    def weighted(self, pairs):
        """pairs: sequence of (item, weight>=0)"""
        tot = 0
        for _, w in pairs:
            tot += w
        r = self.below(tot)
        for it, w in pairs:
            if r < w:
                return it
            r -= w
        return pairs[-1][0]

    def shuffle(self, lst):
        for i in range(len(lst) - 1, 0, -1):
            j = self.below(i + 1)
            lst[i], lst[j] = lst[j], lst[i]
        return lst

    def sample(self, seq, k):
        lst = list(seq)
        self.shuffle(lst)
        return lst[:k]
