"""Reference models (DESIGN 3.2 / 3.3).

EnumRef: the explicit list of all assignments satisfying the constraints the *user* added.
Exact, independent of claripy and of Z3.  Z3Ref (wide / string / float alphabets) lives in refz3.py and
offers the same query API; every query may return None = "no verdict".
"""
from __future__ import annotations

import itertools

from .spec import compile_spec, width_of


class EnumRef:
    kind = "enum"

    def __init__(self, variables: dict, order: list, M=None, universe=None):
        self.variables = variables
        self.order = order
        if universe is None:
            universe = list(itertools.product(*[range(2 if variables[n] == 0 else 1 << variables[n]) for n in order]))
        self.universe = universe
        self.M = universe if M is None else M
        self._memo = {}

    def copy(self):
        return EnumRef(self.variables, self.order, self.M, self.universe)

    def with_models(self, M):
        return EnumRef(self.variables, self.order, M, self.universe)

    # ---- mutation
    def add(self, spec):
        f = compile_spec(spec, self.variables, self.order)
        self.M = [m for m in self.M if f(*m)]
        self._memo.clear()

    # ---- queries
    def models(self, extras=()):
        if not extras:
            return self.M
        key = repr(extras)
        r = self._memo.get(key)
        if r is None:
            r = self.M
            for e in extras:
                f = compile_spec(e, self.variables, self.order)
                r = [m for m in r if f(*m)]
            self._memo[key] = r
        return r

    def sat(self, extras=()):
        return len(self.models(extras)) > 0

    def values(self, e, extras=()):
        f = compile_spec(e, self.variables, self.order)
        return {int(f(*m)) for m in self.models(extras)}

    def tuples(self, es, extras=()):
        fs = [compile_spec(e, self.variables, self.order) for e in es]
        return {tuple(int(f(*m)) for f in fs) for m in self.models(extras)}

    def infeasible_values(self, e, vals, extras=()):
        V = self.values(e, extras)
        return [v for v in vals if v not in V]

    def missing_value(self, e, vals, extras=()):
        """some feasible value not in vals (or None if vals covers V)"""
        V = self.values(e, extras)
        rest = V - set(vals)
        return min(rest) if rest else None

    def optimum(self, e, signed, is_max, extras=()):
        """bit pattern of the optimum, or None when unsat"""
        V = self.values(e, extras)
        if not V:
            return None
        w = width_of(e, self.variables)
        if signed:
            key = lambda v: v - (1 << w) if v >> (w - 1) else v  # noqa: E731
        else:
            key = lambda v: v  # noqa: E731
        return max(V, key=key) if is_max else min(V, key=key)

    def feasible_eq(self, e, v, extras=()):
        """is there a model with e == v ?  v: int or spec"""
        f = compile_spec(e, self.variables, self.order)
        if isinstance(v, (list, tuple)):
            g = compile_spec(v, self.variables, self.order)
            return any(int(f(*m)) == int(g(*m)) for m in self.models(extras))
        return any(int(f(*m)) == v for m in self.models(extras))

    def holds_all(self, e, extras=()):
        f = compile_spec(e, self.variables, self.order)
        return all(f(*m) for m in self.models(extras))

    def fails_all(self, e, extras=()):
        f = compile_spec(e, self.variables, self.order)
        return not any(f(*m) for m in self.models(extras))

    def count(self):
        return len(self.M)
