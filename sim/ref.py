"""Reference models (DESIGN 3.2 / 3.3).

EnumRef: the explicit list of all assignments satisfying the constraints the *user* added.
Exact, independent of claripy and of Z3.  Z3Ref (wide / string / float alphabets) lives in refz3.py and
offers the same query API; every query may return None = "no verdict".
"""
from __future__ import annotations

import itertools

from .spec import compile_spec, width_of


class EnumRef:
    kind = "enum"

    def __init__(self, variables: dict, order: list, M=None, universe=None, domains=None):
        self.variables = variables
        self.order = order
        if universe is None:
            # a string variable ranges over its finite domain (the machine asserts the domain constraint on every new
            # solver, so the enumeration stays exact)
            universe = list(itertools.product(*[(domains or {}).get(n) or range(2 if variables[n] == 0 else 1 << variables[n])
                                                for n in order]))
        self.universe = universe
        self.M = universe if M is None else M
        self._memo = {}

    def copy(self):
        return EnumRef(self.variables, self.order, self.M, self.universe)

    def with_models(self, M):
        return EnumRef(self.variables, self.order, M, self.universe)

    # ---- mutation
    def add(self, spec):
        f = compile_spec(spec, self.variables, self.order)
        self.M = [m for m in self.M if f(*m)]
        self._memo.clear()

    # ---- queries
    def models(self, extras=()):
        if not extras:
            return self.M
        key = repr(extras)
        r = self._memo.get(key)
        if r is None:
            r = self.M
            for e in extras:
                f = compile_spec(e, self.variables, self.order)
                r = [m for m in r if f(*m)]
            self._memo[key] = r
        return r

    def sat(self, extras=()):
        return len(self.models(extras)) > 0

    def values(self, e, extras=()):
        f = compile_spec(e, self.variables, self.order)
        return {_v(f(*m)) for m in self.models(extras)}

    def tuples(self, es, extras=()):
        fs = [compile_spec(e, self.variables, self.order) for e in es]
        return {tuple(_v(f(*m)) for f in fs) for m in self.models(extras)}

    def infeasible_values(self, e, vals, extras=()):
        V = self.values(e, extras)
        return [v for v in vals if v not in V]

    def missing_value(self, e, vals, extras=()):
        """some feasible value not in vals (or None if vals covers V)"""
        V = self.values(e, extras)
        rest = V - set(vals)
        return min(rest) if rest else None

    def optimum(self, e, signed, is_max, extras=()):
        """bit pattern of the optimum, or None when unsat"""
        V = self.values(e, extras)
        if not V:
            return None
        w = width_of(e, self.variables)
        if signed:
            key = lambda v: v - (1 << w) if v >> (w - 1) else v  # noqa: E731
        else:
            key = lambda v: v  # noqa: E731
        return max(V, key=key) if is_max else min(V, key=key)

    def feasible_eq(self, e, v, extras=()):
        """is there a model with e == v ?  v: int or spec"""
        f = compile_spec(e, self.variables, self.order)
        if isinstance(v, (list, tuple)):
            g = compile_spec(v, self.variables, self.order)
            return any(_v(f(*m)) == _v(g(*m)) for m in self.models(extras))
        return any(_v(f(*m)) == v for m in self.models(extras))

    def holds_all(self, e, extras=()):
        f = compile_spec(e, self.variables, self.order)
        return all(f(*m) for m in self.models(extras))

    def fails_all(self, e, extras=()):
        f = compile_spec(e, self.variables, self.order)
        return not any(f(*m) for m in self.models(extras))

    def count(self):
        return len(self.M)


    def infeasible_tuples(self, es, tups, extras=()):
        T = self.tuples(es, extras)
        return [t for t in tups if tuple(t) not in T]

    def missing_tuple(self, es, tups, extras=()):
        rest = self.tuples(es, extras) - {tuple(t) for t in tups}
        return min(rest) if rest else None


def _v(x):
    """value of an expression under an assignment: strings stay strings, everything else is an int"""
    return x if isinstance(x, str) else int(x)


class NoVerdict(Exception):
    """the reference solver answered 'unknown': the question gets no verdict (counted, never a violation)"""


class NullRef:
    """generator-side stand-in for alphabets whose reference needs Z3 (the generator never touches Z3)"""

    kind = "null"
    M = []
    universe = []

    def __init__(self, *a, **k):
        pass

    def copy(self):
        return self

    def with_models(self, M):
        return self

    def add(self, spec):
        pass

    def models(self, extras=()):
        return []

    def sat(self, extras=()):
        return None

    def values(self, e, extras=()):
        return set()

    def tuples(self, es, extras=()):
        return set()

    def optimum(self, e, signed, is_max, extras=()):
        return None

    def feasible_eq(self, e, v, extras=()):
        return None


class Z3Ref:
    """Z3REF reference (DESIGN 3.3): a plain list of reference-context constraints; every oracle question creates a
    fresh z3.Solver in a Context claripy never sees.  'unknown' raises NoVerdict."""

    kind = "z3"
    M = None
    universe = None

    def __init__(self, variables, order, cons=None):
        self.variables = variables
        self.order = order
        self.cons = list(cons or [])

    def copy(self):
        return Z3Ref(self.variables, self.order, self.cons)

    def _b(self, spec):
        from .spec import build_z3ref

        return build_z3ref(spec, self.variables)

    def add(self, spec):
        self.cons.append(self._b(spec))

    def _check(self, extras=(), more=()):
        import z3

        from .spec import ref_ctx

        s = z3.Solver(ctx=ref_ctx())
        s.set("timeout", 8000)
        s.add(*self.cons)
        for e in extras:
            s.add(self._b(e))
        for m in more:
            s.add(m)
        r = s.check()
        if r == z3.unknown:
            raise NoVerdict
        return r == z3.sat, s

    def sat(self, extras=()):
        return self._check(extras)[0]

    def _const(self, e, v):
        import z3

        from .spec import ref_ctx

        w = width_of(e, self.variables)
        t = self._b(e)
        if w == 0:
            return t == z3.BoolVal(bool(v), ref_ctx())
        return t == z3.BitVecVal(v % (1 << w), w, ref_ctx())

    def infeasible_values(self, e, vals, extras=()):
        return [v for v in vals if not self._check(extras, [self._const(e, v)])[0]]

    def missing_value(self, e, vals, extras=()):
        import z3

        ok, s = self._check(extras, [z3.Not(self._const(e, v)) for v in vals])
        if not ok:
            return None
        r = s.model().eval(self._b(e), model_completion=True)
        return (1 if z3.is_true(r) else 0) if z3.is_bool(r) else r.as_long()

    def infeasible_tuples(self, es, tups, extras=()):
        import z3

        return [t for t in tups if not self._check(extras, [z3.And(*[self._const(e, v) for e, v in zip(es, t)])])[0]]

    def missing_tuple(self, es, tups, extras=()):
        import z3

        ok, s = self._check(extras, [z3.Not(z3.And(*[self._const(e, v) for e, v in zip(es, t)])) for t in tups])
        if not ok:
            return None
        out = []
        for e in es:
            r = s.model().eval(self._b(e), model_completion=True)
            out.append((1 if z3.is_true(r) else 0) if z3.is_bool(r) else r.as_long())
        return tuple(out)

    def optimum(self, e, signed, is_max, extras=()):
        """bit pattern of the optimum or None when unsatisfiable; binary search with plain checks"""
        import z3

        from .spec import ref_ctx

        if not self._check(extras)[0]:
            return None
        w = width_of(e, self.variables)
        t = self._b(e)
        ctx = ref_ctx()
        key = (t ^ z3.BitVecVal(1 << (w - 1), w, ctx)) if signed else t  # order-preserving map signed -> unsigned
        lo, hi = 0, (1 << w) - 1
        while lo < hi:
            mid = (lo + hi) // 2
            if is_max:
                ok = self._check(extras, [z3.UGT(key, z3.BitVecVal(mid, w, ctx))])[0]
                if ok:
                    lo = mid + 1
                else:
                    hi = mid
            else:
                ok = self._check(extras, [z3.ULE(key, z3.BitVecVal(mid, w, ctx))])[0]
                if ok:
                    hi = mid
                else:
                    lo = mid + 1
        return (lo ^ (1 << (w - 1))) if signed else lo

    def feasible_eq(self, e, v, extras=()):
        if isinstance(v, (list, tuple)):
            return self._check(extras, [self._b(e) == self._b(v)])[0]
        return self._check(extras, [self._const(e, v)])[0]

    def holds_all(self, e, extras=()):
        import z3

        return not self._check(extras, [z3.Not(self._b(e))])[0]

    def fails_all(self, e, extras=()):
        return not self._check(extras, [self._b(e)])[0]

    def values(self, e, extras=()):
        raise NoVerdict
