"""Seeded generation of configurations and operation histories (pure Python; never touches claripy).

The generator runs its own EnumRef per handle so that it can aim at interesting places (n just at |V|,
probes that are models / near-misses, histories that reach UNSAT).  What it emits is an explicit record.
"""
from __future__ import annotations

from .ref import EnumRef
from .rng import Rng, derive
from .spec import width_of

VAR_SHAPES = [
    [["a", 3], ["b", 3], ["c", 3]],
    [["a", 4], ["b", 4]],
    [["a", 2], ["b", 2], ["c", 2], ["d", 2]],
    [["a", 4], ["b", 3], ["p", 0]],
    [["a", 3], ["b", 3], ["p", 0], ["q", 0]],
    [["a", 5], ["b", 3]],
    [["a", 8]],
    [["a", 6], ["b", 4]],
    [["a", 2], ["b", 2], ["c", 2], ["d", 2], ["e", 2]],
    [["a", 3], ["b", 2], ["c", 3], ["p", 0]],
    [["a", 4], ["b", 4], ["c", 2]],
]

BIN_W = [("add", 10), ("sub", 8), ("and", 7), ("or", 6), ("xor", 7), ("mul", 4), ("shl", 2), ("lshr", 2), ("ashr", 2),
         ("udiv", 1), ("urem", 2), ("sdiv", 1), ("srem", 1)]
CMP_W = [("eq", 10), ("ne", 6), ("ult", 5), ("ule", 4), ("ugt", 4), ("uge", 4), ("slt", 4), ("sle", 3), ("sgt", 3),
         ("sge", 3)]


class ExprGen:
    def __init__(self, rng: Rng, variables: dict, ops_allowed=None):
        self.r = rng
        self.vars = variables
        self.bvs = [n for n, w in variables.items() if w > 0]
        self.bools = [n for n, w in variables.items() if w == 0]
        self.widths = sorted({variables[n] for n in self.bvs})
        self.bin_w = [(o, w) for o, w in BIN_W if ops_allowed is None or o in ops_allowed]
        self.allow = ops_allowed

    def ok(self, op):
        return self.allow is None or op in self.allow

    def const(self, w):
        r = self.r
        m = (1 << w) - 1
        c = r.weighted([(0, 3), (1, 3), (m, 2), (1 << (w - 1), 2), ((1 << (w - 1)) - 1, 1), (-1, 9)])
        if c == -1:
            c = r.below(1 << w)
        return ["const", c & m, w]

    def var_of(self, w):
        cands = [n for n in self.bvs if self.vars[n] == w]
        return ["var", self.r.choice(cands)] if cands else None

    def any_bv_var(self):
        return ["var", self.r.choice(self.bvs)]

    def leaf(self, w):
        r = self.r
        v = self.var_of(w)
        if v is not None and r.chance(72):
            return v
        if v is None and r.chance(60) and self.bvs:
            # adapt some variable to width w
            n = r.choice(self.bvs)
            vw = self.vars[n]
            if vw > w and self.ok("extract"):
                lo = r.range(0, vw - w)
                return ["extract", lo + w - 1, lo, ["var", n]]
            if vw < w and self.ok("zext"):
                return [r.choice(["zext", "sext"]) if self.ok("sext") else "zext", w - vw, ["var", n]]
        return self.const(w)

    def bv(self, w, depth):
        r = self.r
        if depth <= 0 or r.chance(30):
            return self.leaf(w)
        k = r.below(100)
        if k < 62 and self.bin_w:
            op = r.weighted(self.bin_w)
            a = self.bv(w, depth - 1)
            if op in ("udiv", "urem", "sdiv", "srem"):
                b = self.bv(w, depth - 1) if r.chance(50) else self.const(w)
                if b[0] == "const" and b[1] == 0:
                    b = ["const", 1, w]
            elif op in ("shl", "lshr", "ashr"):
                b = ["const", r.below(w + 2) & ((1 << w) - 1), w] if r.chance(70) else self.bv(w, depth - 1)
            else:
                b = self.bv(w, depth - 1)
            return [op, a, b]
        if k < 72:
            un = [u for u in ("not", "neg") if self.ok(u)]
            if un:
                return [r.choice(un), self.bv(w, depth - 1)]
        if k < 82 and self.ok("ite"):
            return ["ite", self.boolean(depth - 1), self.bv(w, depth - 1), self.bv(w, depth - 1)]
        if k < 88 and w >= 2 and self.ok("concat"):
            w1 = r.range(1, w - 1)
            return ["concat", self.bv(w1, depth - 1), self.bv(w - w1, depth - 1)]
        if k < 94 and self.ok("extract"):
            extra = r.range(1, 3)
            lo = r.range(0, extra)
            return ["extract", lo + w - 1, lo, self.bv(w + extra, depth - 1)]
        if w >= 2 and self.ok("zext"):
            k2 = r.range(1, w - 1)
            return [r.choice(["zext", "sext"]) if self.ok("sext") else "zext", k2, self.bv(w - k2, depth - 1)]
        return self.leaf(w)

    def pick_width(self):
        return self.r.choice(self.widths) if self.widths else 1

    def cmp(self, depth):
        r = self.r
        w = self.pick_width()
        op = r.weighted(CMP_W)
        a = self.bv(w, depth)
        b = self.const(w) if r.chance(55) else self.bv(w, depth)
        if r.chance(15):
            a, b = b, a
        return [op, a, b]

    def boolean(self, depth):
        r = self.r
        if not self.bvs:
            return ["var", r.choice(self.bools)] if self.bools else ["true"]
        if depth <= 0 or r.chance(45):
            if self.bools and r.chance(25):
                return ["var", r.choice(self.bools)]
            return self.cmp(max(depth, 0))
        k = r.below(100)
        if k < 35:
            return ["band"] + [self.boolean(depth - 1) for _ in range(r.range(2, 3))]
        if k < 70:
            return ["bor"] + [self.boolean(depth - 1) for _ in range(r.range(2, 3))]
        if k < 88:
            return ["bnot", self.boolean(depth - 1)]
        if k < 94 and self.ok("bite"):
            return ["bite", self.boolean(depth - 1), self.boolean(depth - 1), self.boolean(depth - 1)]
        if k < 97 and self.beq_ok:
            return ["beq", self.boolean(depth - 1), self.boolean(depth - 1)]
        return self.cmp(depth - 1)

    # --- shapes claripy special-cases
    simple = False
    concrete_pct = 0  # extra share of variable-free constraints (true / false / const == const)
    beq_ok = True  # Boolean equality between comparisons

    def constraint(self, ref: EnumRef | None = None):
        r = self.r
        k = r.below(100)
        if not self.bvs:
            return self.boolean(1)
        if self.simple:
            n = r.choice(self.bvs)
            w = self.vars[n]
            x = ["var", n]
            k = r.below(100)
            if k < 30:
                return ["eq", x, self.const(w)]
            if k < 45:
                return ["ne", x, self.const(w)]
            if k < 60:
                return ["bor"] + [["eq", x, self.const(w)] for _ in range(r.range(2, 3))]
            return [r.choice(["ult", "ule", "ugt", "uge"]), x, self.const(w)]
        n = r.choice(self.bvs)
        w = self.vars[n]
        x = ["var", n]
        if k < 14:
            return ["eq", x, self.const(w)] if r.chance(80) else ["eq", self.const(w), x]
        if k < 22:
            return ["ne", x, self.const(w)]
        if k < 32:
            ks = [self.const(w) for _ in range(r.range(2, 3))]
            return ["bor"] + [["eq", x, c] for c in ks]
        if k < 44:
            return [r.choice(["ult", "ule", "ugt", "uge", "slt", "sle", "sgt", "sge"]), x, self.const(w)]
        if k < 54:
            # relation between variables
            y = self.var_of(w)
            if y is not None and y != x:
                return [r.weighted(CMP_W), x, r.choice([y, ["add", y, self.const(w)], ["xor", y, self.const(w)]])]
            return self.cmp(1)
        if k < 60 and self.bools:
            b = ["var", r.choice(self.bools)]
            return r.choice([b, ["bnot", b], ["bor", b, self.cmp(0)], ["beq", b, self.cmp(0)]])
        if k < 66:
            return ["eq", self.bv(w, 1), self.const(w)]
        if k < 72:
            return ["bnot", self.cmp(1)]
        if k < 78:
            return ["band", self.cmp(0), self.cmp(0)]
        if k < 80 + self.concrete_pct:
            return r.choice([["true"], ["false"], ["false"]]) if r.chance(50) else ["eq", self.const(w), self.const(w)]
        return self.boolean(2)

    def query(self):
        """BV expression to evaluate / optimise"""
        r = self.r
        w = self.pick_width()
        k = r.below(100)
        if k < 45:
            v = self.var_of(w)
            if v is not None:
                return v
        if k < 75:
            return self.bv(w, 1)
        if k < 97:
            return self.bv(w, 2)
        return self.const(w)


class StrExprGen(ExprGen):
    """expressions over string variables with finite domains (plus the bit-vector part of ExprGen for the other variables);
    only the pure sequence operations: anything that goes through Int2BV/BV2Int (lengths, indices, conversions) makes Z3's
    string solver give up within the first few queries"""

    POOL = ["", "a", "b", "ab", "ba", "c", "z", "abc"]

    def __init__(self, rng, variables, ops_allowed=None, domains=None):
        super().__init__(rng, {n: w for n, w in variables.items() if w >= 0}, ops_allowed)
        self.vars = variables
        self.strs = [n for n, w in variables.items() if w == -1]
        self.domains = domains or {}

    def sconst(self):
        r = self.r
        if r.chance(60) and self.strs:
            return ["sconst", r.choice(self.domains[r.choice(self.strs)])]
        return ["sconst", r.choice(self.POOL)]

    def svar(self):
        return ["var", self.r.choice(self.strs)]

    def sexpr(self, depth):
        r = self.r
        if depth <= 0 or r.chance(40):
            return self.svar() if r.chance(75) else self.sconst()
        k = r.below(100)
        if k < 45:
            return ["sconcat", self.sexpr(depth - 1), self.sexpr(depth - 1)]
        if k < 70:
            return ["sreplace", self.sexpr(depth - 1), self.sconst(), self.sconst()]
        if k < 90:
            return ["substr", r.range(0, 2), r.range(0, 3), self.sexpr(depth - 1)]
        return ["ite", self.spred(0), self.sexpr(depth - 1), self.sexpr(depth - 1)]

    def spred(self, depth):
        r = self.r
        k = r.below(100)
        x = self.svar()
        if k < 30:
            return ["seq", x, self.sconst()]
        if k < 42:
            return ["sne", x, self.sconst()]
        if k < 55:
            return ["scontains", self.sexpr(depth), self.sconst()]
        if k < 67:
            return ["sprefix", self.sconst(), self.sexpr(depth)]
        if k < 78:
            return ["ssuffix", self.sconst(), self.sexpr(depth)]
        if k < 90:
            return [r.choice(["seq", "sne"]), self.sexpr(depth), self.sexpr(depth)]
        return ["bor", ["seq", x, self.sconst()], ["seq", x, self.sconst()]]

    def boolean(self, depth):
        r = self.r
        if self.bvs and r.chance(25):
            return super().boolean(depth)
        if depth <= 0 or r.chance(50):
            return self.spred(max(depth, 0))
        k = r.below(100)
        if k < 35:
            return ["band", self.boolean(depth - 1), self.boolean(depth - 1)]
        if k < 70:
            return ["bor", self.boolean(depth - 1), self.boolean(depth - 1)]
        return ["bnot", self.boolean(depth - 1)]

    def constraint(self, ref=None):
        r = self.r
        if self.bvs and r.chance(20):
            return super().constraint(ref)
        k = r.below(100)
        if k < 60:
            return self.spred(1)
        if k < 75:
            return ["bnot", self.spred(1)]
        return self.boolean(1)

    def query(self):
        r = self.r
        if self.bvs and r.chance(25):
            return super().query()
        k = r.below(100)
        if k < 40:
            return self.svar()
        if k < 85:
            return self.sexpr(1)
        return self.sexpr(2)


STR_SHAPES = [
    [["s", -1, ["", "a", "b", "ab", "ba", "abc"]], ["t", -1, ["a", "ab", "b"]]],
    [["s", -1, ["a", "b", "aa", "ab"]], ["a", 3]],
    [["s", -1, ["", "a", "ab", "abc", "b", "bc", "c"]]],
    [["s", -1, ["x", "xy", "yx"]], ["t", -1, ["", "y", "x"]], ["p", 0]],
    [["s", -1, ["a", "z"]], ["t", -1, ["a", "b", "c"]], ["u", -1, ["", "ab"]]],
]


# ---------------------------------------------------------------------------------------------

DEFAULT_WEIGHTS = {
    "add": 22, "sat": 8, "eval": 16, "batch_eval": 5, "min": 9, "max": 9, "solution": 8, "is_true": 3, "is_false": 3,
    "simplify": 4, "downsize": 2, "branch": 5, "probe": 12, "forget": 2, "gc": 1, "backend_downsize": 1,
    # off by default, switched on by profiles
    "merge": 0, "combine": 0, "split": 0, "unsat_core": 0, "pickle": 0, "pickle_expr": 0, "g_truth": 0, "new": 0,
    "add_replacement": 0, "split_recombine": 0, "merge3": 0,
    # multi-step shapes random walks rarely produce (DESIGN 9.6.1); cheap, so on everywhere with a small weight
    "exhaust_batch": 2, "span_branch_add": 0, "late_unsat": 2, "bridge_split": 0, "split_cross": 0, "branch_simplify_add": 0, "pairwise_derive": 0, "drop_reuse": 1, "double_branch": 1, "remove_replacement": 0, "branch_replacement": 0, "combine3": 0, "merge_ancestor": 0, "replace_query_remove": 0,
}

QUERY_KINDS = ("sat", "probe", "eval", "batch_eval", "min", "max", "solution", "is_true", "is_false")
APPROX = {"SolverVSA", "SolverReplacementVSA"}


class HistoryGen:
    """Generates one record for the solver-history machine.  Handle bookkeeping (references, lineage, ancestry) is
    done by a dry Machine so that generator and executor can never disagree about it."""

    def __init__(self, seed: int, profile: dict):
        from .machine import Machine

        self.seed = seed
        self.p = profile
        self.r = Rng(derive(seed, "gen"))
        r = self.r
        shapes = profile.get("var_shapes", VAR_SHAPES)
        self.varlist = [list(v) for v in r.choice(shapes)]
        self.vars = {v[0]: v[1] for v in self.varlist}
        self.order = [v[0] for v in self.varlist]
        self.domains = {v[0]: list(v[2]) for v in self.varlist if len(v) > 2}
        self.flag = "f" if "f" in self.vars else None
        gen_vars = {n: w for n, w in self.vars.items() if n != self.flag} or self.vars
        if self.domains:
            self.eg = StrExprGen(r, gen_vars, profile.get("ops_allowed"), self.domains)
            self.eg_approx = self.eg
        else:
            self.eg = ExprGen(r, gen_vars, profile.get("ops_allowed"))
            self.eg_approx = ExprGen(r, gen_vars, profile.get("approx_ops_allowed", profile.get("ops_allowed")))
        if not self.domains:
            self.eg_approx.simple = bool(profile.get("approx_simple_constraints"))
        self.eg.concrete_pct = profile.get("concrete_pct", 0)
        self.ref_kind = profile.get("ref", "enum")
        self.dry = Machine({"config": {"vars": self.varlist, "ref": self.ref_kind}, "ops": []}, None)
        self.ops = []
        self.recent = []  # recently used query expressions (re-query bias)
        self.recent_cs = []
        self.recent_approx = []
        self.recent_cs_approx = []
        self.weights = dict(DEFAULT_WEIGHTS)
        self.weights.update(profile.get("weights", {}))
        if profile.get("swarm", True):
            keep = set(profile.get("never_swarm_out", ())) | {"add", "eval"}
            for k in list(self.weights):
                if k not in keep and r.chance(18):
                    self.weights[k] = 0
        self.max_handles = profile.get("max_handles", 5)
        self.unknown_handles = 0

    # -- handle helpers
    @property
    def handles(self):
        return self.dry.handles

    def emit(self, op):
        """append the op and apply its structural effect to the dry machine"""
        self.ops.append(op)
        if op["op"] in ("new", "branch", "drop", "pickle", "add", "merge", "combine", "add_replacement", "remove_replacement"):
            from .machine import _Skip

            try:
                getattr(self.dry, "op_" + op["op"])(op)
            except _Skip:
                pass

    def egf(self, h):
        return self.eg_approx if (h.cls in APPROX or self.p.get("all_approx")) else self.eg

    # -- helpers
    def extras(self, h):
        r = self.r
        pe = self.p.get("extra_pct", 30)
        if not r.chance(pe):
            return []
        k = r.below(100)
        eg = self.egf(h)
        if k < 70:
            return [eg.constraint()]
        if k < 90:
            return [eg.constraint(), eg.constraint()]
        return [self.assignment_constraint(self.pick_assignment(h.ref, "model"))[0]]

    def pick_assignment(self, ref, how):
        r = self.r
        M = ref.M
        if how == "model" and M:
            return list(r.choice(M))
        if how == "near" and M:
            m = list(r.choice(M))
            i = r.below(len(m))
            w = self.vars[self.order[i]]
            if w == -1:
                m[i] = r.choice(self.domains[self.order[i]])
            else:
                m[i] = (m[i] ^ (1 << r.below(max(w, 1)))) & ((1 << max(w, 1)) - 1)
            return m
        return [r.choice(self.domains[n]) if self.vars[n] == -1 else r.below(2 if self.vars[n] == 0 else 1 << self.vars[n])
                for n in self.order]

    def assignment_constraint(self, m, subset=None):
        cs = []
        for i, n in enumerate(self.order):
            if subset is not None and n not in subset:
                continue
            w = self.vars[n]
            if w == 0:
                cs.append(["var", n] if m[i] else ["bnot", ["var", n]])
            elif w == -1:
                cs.append(["seq", ["var", n], ["sconst", m[i]]])
            else:
                cs.append(["eq", ["var", n], ["const", m[i], w]])
        return cs

    def _recent(self, h, which):
        """recently used expressions are kept per alphabet: an expression generated for an exact frontend must not be
        re-queried on an approximate one (it may use operations outside the approximate alphabet)"""
        if self.egf(h) is self.eg_approx and self.eg_approx.allow != self.eg.allow:
            return self.recent_approx if which == "q" else self.recent_cs_approx
        return self.recent if which == "q" else self.recent_cs

    def qexpr(self, h):
        r = self.r
        rec = self._recent(h, "q")
        if rec and r.chance(self.p.get("requery_pct", 45)):
            return r.choice(rec)
        e = self.egf(h).query()
        rec.append(e)
        if len(rec) > 6:
            rec.pop(0)
        return e

    def gen_constraint(self, h):
        r = self.r
        rec = self._recent(h, "c")
        if rec and r.chance(8):
            return r.choice(rec)  # duplicate add
        c = self.egf(h).constraint(h.ref)
        rec.append(c)
        if len(rec) > 8:
            rec.pop(0)
        return c

    def pick_n(self, ref, e, extras):
        r = self.r
        nv = len(ref.values(e, extras))
        k = r.below(100)
        if k < 25:
            return max(1, nv)
        if k < 45:
            return nv + 1
        if k < 60:
            return max(1, nv - 1)
        if k < 75:
            return 1
        if k < 85:
            return 2
        return r.range(1, 20)

    def new_handle(self, cls=None, kw=None):
        r = self.r
        if cls is None:
            cls = r.weighted(self.p["frontends"])
        if kw is None:
            kw = {}
            kwf = self.p.get("kw_for", {}).get(cls)
            if kwf:
                kw = dict(r.choice(kwf))
        self.emit({"op": "new", "cls": cls, "kw": kw})

    def exact_arg(self, h, op):
        """exact= argument for hybrid solvers"""
        if h.cls == "SolverHybrid":
            if h.kw.get("approximate_first") and self.p.get("approx_first_always_exact"):
                # in an exact-mode phase a hybrid built with approximate_first is only ever asked with an explicit exact=True
                # (left to itself it answers from its approximate half, over the full alphabet: C21/C24 territory)
                op["exact"] = True
                return
            choices = self.p.get("hybrid_exact", [None, True])
            v = self.r.choice(choices)
            if v is not None:
                op["exact"] = v

    def query_op(self, kind, hi, h):
        r = self.r
        ref = h.ref
        op = {"h": hi}
        if kind == "sat":
            op.update(op="sat", extra=self.extras(h))
        elif kind == "probe":
            how = r.weighted([("model", 5), ("near", 4), ("rand", 2)])
            m = self.pick_assignment(ref, how)
            subset = None
            if r.chance(30):
                subset = set(r.sample(self.order, r.range(1, len(self.order))))
            op.update(op="sat", extra=self.assignment_constraint(m, subset), probe=how)
        elif kind == "eval":
            e = self.qexpr(h)
            ex = self.extras(h)
            op.update(op="eval", e=e, n=self.pick_n(ref, e, ex), extra=ex)
        elif kind == "batch_eval":
            es = [self.qexpr(h) for _ in range(r.range(1, 3))]
            ex = self.extras(h)
            nt = len(ref.tuples(es, ex))
            n = r.choice([1, 2, max(1, nt), nt + 1, max(1, nt - 1), r.range(1, 12)])
            op.update(op="batch_eval", es=es, n=n, extra=ex)
        elif kind in ("min", "max"):
            e = self.qexpr(h)
            if width_of(e, self.vars) <= 0:
                # no optimum of a string: ask for its values instead
                ex = self.extras(h)
                op.update(op="eval", e=e, n=self.pick_n(ref, e, ex), extra=ex)
            else:
                op.update(op=kind, e=e, signed=r.chance(45), extra=self.extras(h))
        elif kind == "solution":
            e = self.qexpr(h)
            ex = self.extras(h)
            w = width_of(e, self.vars)
            V = sorted(ref.values(e, ex))
            k = r.below(100)
            if w == -1:
                eg = self.egf(h)
                v = r.choice(V) if (k < 45 and V) else (eg.sconst()[1] if k < 80 else eg.sexpr(1))
            elif k < 40 and V:
                v = r.choice(V)
            elif k < 75:
                v = r.below(1 << w)
            elif k < 90:
                v = self.egf(h).bv(w, 1)
            else:
                v = self.egf(h).const(w)
            op.update(op="solution", e=e, v=v, extra=ex)
        elif kind in ("is_true", "is_false"):
            rc_ = self._recent(h, "c")
            if r.chance(self.p.get("truth_template_pct", 15)) and self.egf(h).bvs and not self.domains:
                e = self.truth_template(h, kind == "is_true")
            else:
                e = r.choice(rc_) if (rc_ and r.chance(50)) else self.egf(h).boolean(1)
            op.update(op=kind, e=e, extra=self.extras(h) if r.chance(30) else [])
        self.exact_arg(h, op)
        return op

    def concrete_truth(self):
        """a VARIABLE-FREE comparison whose operands claripy does not fold at construction (one leaf carries a
        simplification-avoidance annotation): the cheap truth check has to evaluate it with its concrete backend.  The
        generator knows the value (the evaluator needs no variables for it) and writes a true or a false comparison."""
        from .spec import compile_spec

        r = self.r
        if r.chance(25):
            pool = ["", "a", "ab", "abc", "b", "a.c", "a*", "zz"]
            a, b = r.choice(pool), r.choice(pool)
            k = r.below(100)
            if k < 40:
                return [r.choice(["seq", "sne"]), ["noelim", ["sconst", a]], ["sconst", r.choice([a, b])]]
            if k < 60:
                return ["scontains", ["noelim", ["sconst", a + b]], ["sconst", r.choice([a, b, "q"])]]
            if k < 80:
                return [r.choice(["sprefix", "ssuffix"]), ["sconst", r.choice([a, b])], ["noelim", ["sconst", a + b]]]
            return ["seq", ["sconcat", ["noelim", ["sconst", a]], ["sconst", b]], ["sconst", r.choice([a + b, b + a])]]
        w = r.choice([8, 16, 32, 64, 64, 65, 128])
        m = (1 << w) - 1

        def c():
            v = r.weighted([(0, 1), (1, 2), (m, 2), (1 << (w - 1), 2), ((1 << (w - 1)) + 1, 2), ((1 << min(w - 1, 62)) + 1, 3), (-1, 6)])
            if v == -1:
                v = r.next() & m if w <= 64 else ((r.next() << 64) | r.next()) & m
            return ["const", v & m, w]

        def tree(d):
            if d <= 0 or r.chance(35):
                return c()
            op = r.weighted([("add", 3), ("sub", 3), ("mul", 2), ("and", 2), ("or", 2), ("xor", 2), ("udiv", 3), ("urem", 3), ("sdiv", 5),
                             ("srem", 5), ("shl", 2), ("lshr", 2), ("ashr", 3)])
            a, b = tree(d - 1), tree(d - 1)
            if op in ("udiv", "urem", "sdiv", "srem"):
                b = c()
                if b[1] == 0:
                    b = ["const", 3, w]
            if op in ("shl", "lshr", "ashr"):
                b = ["const", r.below(w + 2) & m, w]
            return [op, a, b]

        t = tree(r.range(1, 2))
        # exactly one leaf is kept from folding
        def mark(sp):
            if sp[0] == "const":
                return ["noelim", sp]
            i = 1 if r.chance(60) else 2
            out = list(sp)
            out[i] = mark(sp[i])
            return out

        t = mark(t)
        v = int(compile_spec(t, {}, [])())
        k = r.below(100)
        if k < 45:
            return ["eq", t, ["const", v if r.chance(55) else (v ^ (1 << r.below(w))), w]]
        if k < 65:
            return ["ne", t, ["const", v if r.chance(50) else (v + 1) & m, w]]
        other = c()
        return [r.choice(["ult", "ule", "ugt", "uge", "slt", "sle", "sgt", "sge"]), t, other]

    def truth_template(self, h, want_valid):
        """a tautology (or, for is_false, a contradiction) that claripy's own rewriting does not fold: the cheap truth
        check has to ask its backend, so True is the informative answer"""
        r = self.r
        eg = self.egf(h)
        n = r.choice(eg.bvs)
        w = self.vars[n]
        x = ["var", n]
        k = (r.range(1, (1 << w) - 1)) if w > 1 else 1
        c = ["const", k, w]
        pool = [["ne", x, ["add", x, c]], ["eq", ["sub", ["add", x, c], c], x], ["ule", ["and", x, c], c] if eg.ok("and") else ["ne", x, ["add", x, c]],
                ["eq", ["xor", ["xor", x, c], c], x] if eg.ok("xor") else ["ne", x, ["sub", x, c]], ["uge", ["or", x, c], c] if eg.ok("or") else ["ne", x, ["sub", x, c]]]
        t = r.choice(pool)
        if not want_valid:
            t = ["bnot", t] if r.chance(50) else {"ne": ["eq"] + t[1:], "eq": ["ne"] + t[1:], "ule": ["ugt"] + t[1:], "uge": ["ult"] + t[1:]}[t[0]]
        return t

    def gen_op(self):
        r = self.r
        live = [h for h in self.handles if h.alive]
        hi = r.below(len(live))
        h = live[hi]
        if self.unknown_handles and r.chance(35):
            # handles the executor has and the generator cannot know (the parts split() returned): address them blindly;
            # the executor maps the index onto its own list of live handles
            hi = len(live) + r.below(self.unknown_handles)
        ref = h.ref
        kinds = [(k, w) for k, w in self.weights.items() if w > 0]
        kind = r.weighted(kinds)
        op = {"h": hi}
        if kind == "add":
            ncs = 1 if r.chance(80) else r.range(2, 3)
            cs = [self.gen_constraint(h) for _ in range(ncs)]
            # keep most solvers satisfiable most of the time: resample a killer constraint sometimes
            if r.chance(self.p.get("keep_sat_pct", 70)):
                for _ in range(4):
                    t = ref.copy()
                    for c in cs:
                        t.add(c)
                    if t.M:
                        break
                    cs = [self.gen_constraint(h)]
            if r.chance(self.p.get("dup_in_list_pct", 6)):
                # the same constraint twice in ONE call, followed by another one: whatever pairs up "given" and "actually
                # added" constraints positionally goes wrong here
                cs = [cs[0], cs[0]] + cs[1:] + [self.gen_constraint(h)]
            op.update(op="add", cs=cs)
            if len(cs) == 1 and r.chance(30):
                op["as_list"] = False
            self.emit(op)
            self.sweep(hi)
            return
        if kind in QUERY_KINDS:
            q = self.query_op(kind, hi, h)
            self.emit(q)
            self.kill_and_requery(q, hi, h)
            self.narrow_and_requery(q, hi, h)
            self.echo(q, hi, h, live)
            return
        if kind in ("simplify", "downsize"):
            op.update(op=kind)
            self.emit(op)
            self.sweep(hi)
            return
        if kind == "branch":
            if len(live) >= self.max_handles:
                return
            op.update(op="branch")
        elif kind == "new":
            if len(live) >= self.max_handles:
                return
            self.new_handle()
            return
        elif kind == "forget":
            if r.chance(30) or not self.recent:
                op = {"op": "forget_all"}
            else:
                op = {"op": "forget", "e": r.choice(self.recent)}
        elif kind == "gc":
            op = {"op": "gc"}
        elif kind == "backend_downsize":
            op = {"op": "backend_downsize", "which": r.choice(["z3", "z3", "concrete", "vsa"])}
        elif kind == "g_truth":
            if r.chance(self.p.get("concrete_truth_pct", 0)):
                e = self.concrete_truth()
            else:
                e = r.choice(self.recent_cs) if (self.recent_cs and r.chance(60)) else self.eg.boolean(r.range(0, 2))
            op = {"op": r.choice(["g_is_true", "g_is_false"]), "e": e, "how": r.choice(["module", "method"])}
        elif kind == "merge":
            op = self.gen_merge(hi, h, live)
            if op is None:
                return
        elif kind == "combine":
            same = [j for j, x in enumerate(live) if x is not h and x.cls == h.cls]
            if not same or len(live) >= self.max_handles + 2:
                return
            others = r.sample(same, r.range(1, min(2, len(same))))
            if self.unknown_handles and r.chance(40):
                others[0] = len(live) + r.below(self.unknown_handles)
            op.update(op="combine", others=others)
        elif kind == "split":
            op.update(op="split")
            self.unknown_handles = min(6, self.unknown_handles + 2)
        elif kind == "unsat_core":
            op.update(op="unsat_core")
            if r.chance(25):
                op["extra"] = [self.egf(h).constraint()]
        elif kind == "split_recombine":
            self.macro_split_recombine(hi, h)
            return
        elif kind == "merge3":
            self.macro_merge3(hi, h, live)
            return
        elif kind == "exhaust_batch":
            self.macro_exhaust_batch(hi, h)
            return
        elif kind == "bridge_split":
            self.macro_bridge_split(hi, h)
            return
        elif kind == "split_cross":
            self.macro_split_cross(hi, h)
            return
        elif kind == "merge_ancestor":
            self.macro_merge_ancestor(hi, h, live)
            return
        elif kind == "replace_query_remove":
            self.macro_replace_query_remove(hi, h, live)
            return
        elif kind == "combine3":
            self.macro_combine3(hi, h, live)
            return
        elif kind == "branch_replacement":
            self.macro_branch_replacement(hi, h, live)
            return
        elif kind == "drop_reuse":
            self.macro_drop_reuse(hi, h, live)
            return
        elif kind == "double_branch":
            self.macro_double_branch(hi, h, live)
            return
        elif kind == "remove_replacement":
            rr = [c for c in h.lineage if isinstance(c, list) and c and c[0] == "eq" and c[-1] == "by-add-replacement"]
            if h.cls != "SolverReplacement" or not rr:
                return
            op = {"op": "remove_replacement", "h": hi, "var": r.choice(rr)[1][1]}
        elif kind == "pairwise_derive":
            self.macro_pairwise_derive(hi, h, live)
            return
        elif kind == "branch_simplify_add":
            self.macro_branch_simplify_add(hi, h, live)
            return
        elif kind == "span_branch_add":
            self.macro_span_branch_add(hi, h, live)
            return
        elif kind == "late_unsat":
            self.macro_late_unsat(hi, h, live)
            return
        elif kind == "add_replacement":
            if h.cls != "SolverReplacement":
                return
            op = self.add_replacement_op(hi, h)
            if op is None:
                return
        elif kind == "pickle":
            op.update(op="pickle", proto=r.choice([2, 4, 5]), mode=r.choice(self.p.get("pickle_modes", ["replace", "twin"])))
            if op["mode"] == "twin" and len(live) >= self.max_handles + 1:
                op["mode"] = "replace"
            if op["mode"] == "twin":
                # questions asked BEFORE the solver is pickled: what it memoised for them is (or is not) in the pickle
                pre = []
                if r.chance(55):
                    for _ in range(r.range(1, 2)):
                        q0 = self.query_op(r.choice(["eval", "max", "min"]), hi, h)
                        if "e" in q0 and q0["e"][0] in ("var", "const") and q0["op"] in ("eval", "min", "max"):
                            w_ = width_of(q0["e"], self.vars)
                            q0["e"] = self.egf(h).sexpr(1) if w_ == -1 else self.egf(h).bv(w_, 1)
                        q0.pop("probe", None)
                        pre.append(q0)
                        self.emit(q0)
                self.emit(op)
                # drive original and twin in lock-step for a while: determined answers must be equal
                live = [x for x in self.handles if x.alive]
                ti = len(live) - 1
                asked = []
                todo = [dict(q0) for q0 in pre] + [None] * r.range(1 if not pre else 0, 3)
                for q in todo:
                    k2 = r.weighted([("sat", 2), ("probe", 3), ("eval", 4), ("min", 2), ("max", 2), ("solution", 2), ("batch_eval", 1)])
                    if q is None:
                        q = self.query_op(k2, hi, h)
                    if "e" in q and q["e"][0] in ("var", "const") and r.chance(60) and q["op"] in ("eval", "min", "max"):
                        w_ = width_of(q["e"], self.vars)
                        q["e"] = self.egf(h).sexpr(1) if w_ == -1 else self.egf(h).bv(w_, 1)
                    asked.append(q)
                    first = len(self.ops)
                    self.emit(q)
                    q2 = dict(q)
                    q2["h"] = ti
                    q2["same_as"] = first
                    self.emit(q2)
                # "the same answers from then on": the same constraint to both, then the same questions again (what the
                # unpickled solver remembered from its first answers must not outlive the constraint change)
                for _ in range(r.range(0, 2)):
                    c = None
                    with_e = [q for q in asked if isinstance(q.get("e"), list) and q["op"] in ("eval", "min", "max")]
                    if with_e and r.chance(75):
                        c = self.narrow_constraint(h, r.choice(with_e)["e"])
                    if c is None:
                        c = self.gen_constraint(h)
                    self.emit({"op": "add", "h": hi, "cs": [c]})
                    self.emit({"op": "add", "h": ti, "cs": [c]})
                    again = [dict(q) for q in asked if q["op"] != "sat" and r.chance(75)]
                    for _ in range(r.range(0, 2)):
                        again.append(self.query_op(r.weighted([("sat", 2), ("eval", 4), ("min", 2), ("max", 3), ("solution", 1)]), hi, h))
                    for q in again:
                        q.pop("probe", None)
                        first = len(self.ops)
                        self.emit(q)
                        q2 = dict(q)
                        q2["h"] = ti
                        q2["same_as"] = first
                        self.emit(q2)
                return
        elif kind == "pickle_expr":
            e = r.choice(self.recent + self.recent_cs) if (self.recent or self.recent_cs) else self.eg.boolean(2)
            op = {"op": "pickle_expr", "e": e, "proto": r.choice([2, 4, 5])}
        else:
            raise AssertionError(kind)
        self.emit(op)

    def echo(self, q, hi, h, live):
        """the same question to a relative (a branch, the parent, a sibling): state shared between solvers that should
        be isolated shows when the second one answers from what the first one left behind"""
        r = self.r
        if len(live) < 2 or not r.chance(self.p.get("echo_pct", 8)):
            return
        same = [j for j, x in enumerate(live) if j != hi and x.cls == h.cls]
        if not same:
            return
        q2 = dict(q)
        q2["h"] = r.choice(same)
        q2.pop("probe", None)
        self.emit(q2)
        if r.chance(40):
            self.emit(dict(q))

    def add_replacement_op(self, hi, h):
        """SolverReplacement.add_replacement(var, const) on a variable no constraint of this solver mentions yet (then
        it means exactly `var == const`)"""
        from .spec import spec_vars

        r = self.r
        used = set()
        for c in h.lineage:
            spec_vars(c, used)
        free = [n for n in self.order if n not in used and self.vars[n] > 0 and n != self.flag]
        if not free:
            return None
        n = r.choice(free)
        w = self.vars[n]
        op = {"op": "add_replacement", "h": hi, "var": n, "value": r.below(1 << w)}
        if r.chance(40):
            op["invalidate_cache"] = False
        return op

    def macro_split_recombine(self, hi, h):
        """C15: solve -> split() -> change one part so that its cached model dies, solve it again -> combine the parts
        again -> query the result: model carry-over between split() and combine() shows here"""
        from .spec import spec_vars

        r = self.r
        used = set()
        for c in h.lineage:
            spec_vars(c, used)
        bvs = [n for n in self.order if n in used and self.vars[n] > 0 and n != self.flag]
        if len(bvs) < 2:
            return
        a, b = r.sample(bvs, 2)
        va, vb = ["var", a], ["var", b]
        signed = r.chance(30)
        self.emit({"op": r.choice(["min", "max"]), "h": hi, "e": va, "signed": signed, "extra": []})
        self.emit({"op": "eval", "h": hi, "e": vb, "n": 1, "extra": []})
        self.emit({"op": "split", "h": hi})
        self.unknown_handles = min(6, self.unknown_handles + 2)
        pa, pb = {"h_var": a, "h": hi}, {"h_var": b, "h": hi}
        which = r.choice(["min", "max"])
        m = h.ref.optimum(va, signed, which == "max")
        if m is None:
            return
        self.emit({"op": which, "h": pa, "e": va, "signed": signed, "extra": []})
        self.emit({"op": "add", "h": pa, "cs": [["ne", va, ["const", m, self.vars[a]]]]})
        self.emit({"op": which, "h": pa, "e": va, "signed": signed, "extra": []})
        first, second = (pa, pb) if r.chance(70) else (pb, pa)
        self.emit({"op": "combine", "h": first, "others": [second]})
        for _ in range(r.range(2, 4)):
            k = r.weighted([("min", 2), ("max", 2), ("eval", 3), ("sat", 3), ("solution", 2)])
            if k == "sat":
                self.emit({"op": "sat", "h": -1, "extra": [["eq", va, ["const", m, self.vars[a]]]]})
            elif k == "solution":
                self.emit({"op": "solution", "h": -1, "e": va, "v": m, "extra": []})
            elif k == "eval":
                self.emit({"op": "eval", "h": -1, "e": r.choice([va, vb]), "n": r.choice([1, 2, 40]), "extra": []})
            else:
                self.emit({"op": k, "h": -1, "e": va, "signed": signed, "extra": []})

    def macro_exhaust_batch(self, hi, h):
        """enumerate two expressions exhaustively one after the other, then ask for them together: what the solver
        remembers about each of them says nothing about their combinations"""
        r = self.r
        if h.ref.kind != "enum" or not self.egf(h).bvs:
            return
        eg = self.egf(h)
        es = []
        for _ in range(2):
            v = ["var", r.choice(eg.bvs)] if r.chance(60) else self.qexpr(h)
            if v not in es:
                es.append(v)
        if len(es) < 2:
            return
        for e in es:
            nv = len(h.ref.values(e))
            if nv == 0 or nv > 40:
                return
        for e in es:
            self.emit(self.exact_op(h, {"op": "eval", "h": hi, "e": e, "n": len(h.ref.values(e)) + r.range(1, 3), "extra": []}))
        nt = len(h.ref.tuples(es))
        self.emit(self.exact_op(h, {"op": "batch_eval", "h": hi, "es": es if r.chance(70) else es[::-1], "n": nt + r.range(0, 2),
                                    "extra": []}))
        if r.chance(40):
            k = r.choice(["min", "max"])
            self.emit(self.exact_op(h, {"op": k, "h": hi, "e": r.choice([["add", es[0], es[1]], ["xor", es[0], es[1]]])
                                        if width_of(es[0], self.vars) == width_of(es[1], self.vars) else es[0], "signed": r.chance(30), "extra": []}))

    def exact_op(self, h, op):
        self.exact_arg(h, op)
        return op

    def macro_span_branch_add(self, hi, h, live):
        """a query that spans several variables (for a composite: several children, i.e. a combined solver is built
        and remembered), then a branch, then a constraint over exactly those variables on ONE side, then the same
        questions on the other side"""
        r = self.r
        if h.ref.kind != "enum" or len(live) >= self.max_handles + 1:
            return
        eg = self.egf(h)
        if eg.simple:
            return
        by_w = {}
        for n in eg.bvs:
            by_w.setdefault(self.vars[n], []).append(n)
        groups = [ns for ns in by_w.values() if len(ns) >= 2]
        if not groups:
            return
        a, b = r.sample(r.choice(groups), 2)
        w = self.vars[a]
        e = [r.choice([o for o in ("add", "xor", "sub", "or") if eg.ok(o)] or ["add"]), ["var", a], ["var", b]]
        q = lambda hh, kind: self.exact_op(h, {"op": kind, "h": hh, "e": e, "extra": [], **({"n": r.choice([1, 2, 40])} if kind == "eval" else {"signed": False})})  # noqa: E731
        self.emit(q(hi, r.choice(["eval", "max", "min"])))
        self.emit({"op": "branch", "h": hi})
        bi = len([x for x in self.handles if x.alive]) - 1
        writer, reader = (bi, hi) if r.chance(50) else (hi, bi)
        V = sorted(h.ref.values(e))
        if not V:
            return
        k = r.choice(V)
        c = [r.choice(["eq", "ne", "ule", "uge"]), e, ["const", k, w]]
        self.emit({"op": "add", "h": writer, "cs": [c]})
        for _ in range(r.range(2, 3)):
            kind = r.choice(["eval", "max", "min", "sat", "solution"])
            if kind == "sat":
                self.emit({"op": "sat", "h": reader, "extra": [["eq", e, ["const", r.choice(V), w]]]})
            elif kind == "solution":
                self.emit(self.exact_op(h, {"op": "solution", "h": reader, "e": e, "v": r.choice(V), "extra": []}))
            else:
                self.emit(q(reader, kind))
        if r.chance(50):
            self.emit(q(writer, r.choice(["eval", "max", "min"])))

    def macro_late_unsat(self, hi, h, live):
        """a constraint that makes the set unsatisfiable in a way only solving can tell, added WITHOUT asking; then a
        branch and/or simplify / an optimisation of an unrelated variable before anybody asks for satisfiability"""
        r = self.r
        c_ = self.late_unsat_constraint(h)
        if c_ is None:
            return
        c_, a = c_
        eg = self.egf(h)
        self.emit({"op": "add", "h": hi, "cs": [c_]})
        others = [n for n in eg.bvs if n != a]
        cur = hi
        if r.chance(70) and len(live) < self.max_handles + 1:
            self.emit({"op": "branch", "h": hi})
            if r.chance(60):
                cur = len([z for z in self.handles if z.alive]) - 1
        if r.chance(60):
            self.emit({"op": "simplify", "h": cur})
        for _ in range(r.range(1, 3)):
            if others and r.chance(75):
                y = ["var", r.choice(others)]
                kind = r.choice(["eval", "max", "min", "sat"])
                if kind == "sat":
                    self.emit({"op": "sat", "h": cur, "extra": [["eq", y, ["const", r.below(1 << self.vars[y[1]]), self.vars[y[1]]]]]})
                elif kind == "eval":
                    self.emit(self.exact_op(h, {"op": "eval", "h": cur, "e": y, "n": r.choice([1, 2, 5]), "extra": []}))
                else:
                    self.emit(self.exact_op(h, {"op": kind, "h": cur, "e": y, "signed": False, "extra": []}))
            else:
                self.emit({"op": "sat", "h": cur, "extra": []})
            if r.chance(40):
                cur = hi if cur != hi else cur

    def late_unsat_constraint(self, h):
        """-> (constraint, variable) that makes h unsatisfiable in a way only solving can tell, or None"""
        r = self.r
        if h.ref.kind != "enum" or not h.ref.M:
            return None
        eg = self.egf(h)
        if not eg.bvs or eg.simple:
            return None
        a = r.choice(eg.bvs)
        w = self.vars[a]
        x = ["var", a]
        cands = []
        if eg.ok("mul") and w >= 2:
            # squares are 0 or 1 mod 4: x*x == 2 or 3 (mod 2^w) has no solution
            cands.append(["eq", ["mul", x, x], ["const", r.choice([2, 3]), w]])
        if eg.ok("and") and eg.ok("add"):
            cands.append(["eq", ["and", ["add", x, x], ["const", 1, w]], ["const", 1, w]])  # 2x is even
        if eg.ok("xor") and eg.ok("add"):
            cands.append(["ult", ["add", ["xor", x, ["const", 1, w]], x], ["const", 1, w]])  # (x^1)+x is odd, never 0
        V = sorted(h.ref.values(x))
        miss = [v for v in range(1 << w) if v not in V]
        if miss and len(V) > 1:
            cands.append(["eq", ["add", x, ["const", 1, w]], ["const", (r.choice(miss) + 1) % (1 << w), w]])
        if not cands:
            return None
        return r.choice(cands), a

    def macro_bridge_split(self, hi, h):
        """two groups of variables are established first, a later constraint bridges them without naming all their
        variables, then split(): the bridged groups are ONE group"""
        r = self.r
        if h.ref.kind != "enum":
            return
        eg = self.egf(h)
        by_w = {}
        for n in eg.bvs:
            by_w.setdefault(self.vars[n], []).append(n)
        groups = [ns for ns in by_w.values() if len(ns) >= 4]
        if not groups:
            return
        a, b, c, d = r.sample(r.choice(groups), 4)
        w = self.vars[a]
        rel = lambda x, y: [r.choice(["ule", "uge", "ne", "eq"]), ["var", x], r.choice([["var", y], ["add", ["var", y], ["const", r.below(1 << w), w]]])]  # noqa: E731
        cs = [rel(a, b), rel(c, d), rel(b, c)]
        if r.chance(50):
            self.emit({"op": "add", "h": hi, "cs": cs})
        else:
            for c_ in cs:
                self.emit({"op": "add", "h": hi, "cs": [c_]})
        self.emit({"op": "split", "h": hi})
        self.unknown_handles = min(6, self.unknown_handles + 2)
        for v in r.sample([a, b, c, d], 2):
            self.emit({"op": r.choice(["max", "min"]), "h": {"h_var": v, "h": hi}, "e": ["var", v], "signed": False, "extra": []})

    def macro_split_cross(self, hi, h):
        """constraints on two different variables, split(), then every part is asked about the OTHER part's variable: a
        part knows nothing about it (what the unsplit solver had learnt about it must not travel with the part)"""
        r = self.r
        if h.ref.kind != "enum":
            return
        eg = self.egf(h)
        if len(eg.bvs) < 2:
            return
        a, b = r.sample(eg.bvs, 2)

        def simple(n):
            w = self.vars[n]
            return [r.choice(["ule", "uge", "ult", "ugt"]), ["var", n], ["const", r.range(1, max(1, (1 << w) - 2)), w]]

        ca, cb = simple(a), simple(b)
        self.emit({"op": "add", "h": hi, "cs": [ca]})
        self.emit({"op": "add", "h": hi, "cs": [cb]})
        if r.chance(50):
            self.emit(self.exact_op(h, {"op": "max", "h": hi, "e": ["var", b], "signed": False, "extra": []}))
        self.emit({"op": "split", "h": hi})
        self.unknown_handles = min(6, self.unknown_handles + 2)
        for mine, other, c_other in ((a, b, cb), (b, a, ca)):
            part = {"h_var": mine, "h": hi}
            for _ in range(r.range(1, 3)):
                k = r.choice(["is_true", "is_false", "max", "min", "eval", "solution"])
                if k == "is_true":
                    self.emit(self.exact_op(h, {"op": "is_true", "h": part, "e": c_other, "extra": []}))
                elif k == "is_false":
                    self.emit(self.exact_op(h, {"op": "is_false", "h": part, "e": ["bnot", c_other], "extra": []}))
                elif k == "eval":
                    self.emit(self.exact_op(h, {"op": "eval", "h": part, "e": ["var", other], "n": (1 << self.vars[other]) + 1, "extra": []}))
                elif k == "solution":
                    self.emit(self.exact_op(h, {"op": "solution", "h": part, "e": ["var", other], "v": r.below(1 << self.vars[other]), "extra": []}))
                else:
                    self.emit(self.exact_op(h, {"op": k, "h": part, "e": ["var", other], "signed": False, "extra": []}))

    def macro_branch_simplify_add(self, hi, h, live):
        """branch, then on ONE side simplify (explicitly, or implicitly through an optimisation / a multi-value eval),
        narrow a variable, and ask the OTHER side about that variable"""
        r = self.r
        if h.ref.kind != "enum" or len(live) >= self.max_handles + 1 or not h.ref.M:
            return
        eg = self.egf(h)
        if not eg.bvs or eg.simple:
            return
        x = r.choice(eg.bvs)
        vx = ["var", x]
        if r.chance(60):
            self.emit({"op": "add", "h": hi, "cs": [self.gen_constraint(h)]})
        self.emit({"op": "branch", "h": hi})
        bi = len([z for z in self.handles if z.alive]) - 1
        writer, reader = (bi, hi) if r.chance(60) else (hi, bi)
        k = r.choice(["simplify", "max", "min", "eval"])
        if k == "simplify":
            self.emit({"op": "simplify", "h": writer})
        elif k == "eval":
            self.emit(self.exact_op(h, {"op": "eval", "h": writer, "e": r.choice([vx, self.qexpr(h)]), "n": r.range(2, 5), "extra": []}))
        else:
            self.emit(self.exact_op(h, {"op": k, "h": writer, "e": r.choice([vx, self.qexpr(h)]), "signed": False, "extra": []}))
        c = self.narrow_constraint(self.handles[-1] if self.handles else h, vx) or ["ne", vx, ["const", r.below(1 << self.vars[x]), self.vars[x]]]
        self.emit({"op": "add", "h": writer, "cs": [c]})
        for _ in range(r.range(1, 3)):
            q = r.choice(["max", "min", "eval", "solution", "sat"])
            if q == "sat":
                self.emit({"op": "sat", "h": reader, "extra": [["eq", vx, ["const", r.below(1 << self.vars[x]), self.vars[x]]]]})
            elif q == "eval":
                self.emit(self.exact_op(h, {"op": "eval", "h": reader, "e": vx, "n": (1 << self.vars[x]) + 1, "extra": []}))
            elif q == "solution":
                self.emit(self.exact_op(h, {"op": "solution", "h": reader, "e": vx, "v": r.below(1 << self.vars[x]), "extra": []}))
            else:
                self.emit(self.exact_op(h, {"op": q, "h": reader, "e": vx, "signed": False, "extra": []}))

    def macro_pairwise_derive(self, hi, h, live):
        """C16: a pairwise contradiction added one constraint at a time (the cheap cached core), then a solver DERIVED from
        that one (merge with a satisfiable sibling; split), then unsat_core() on the derived solver"""
        r = self.r
        if h.ref.kind != "enum" or len(live) >= self.max_handles:
            return
        eg = self.egf(h)
        if len(eg.bvs) < 2:
            return
        x, y = r.sample(eg.bvs, 2)
        wx, wy = self.vars[x], self.vars[y]
        k1 = r.below(1 << wx)
        k2 = (k1 + r.range(1, (1 << wx) - 1)) % (1 << wx)
        self.emit({"op": "new", "cls": h.cls, "kw": dict(h.kw or {})})
        a_i = len([z for z in self.handles if z.alive]) - 1
        self.emit({"op": "add", "h": a_i, "cs": [["eq", ["var", x], ["const", k1, wx]]]})
        self.emit({"op": "add", "h": a_i, "cs": [["eq", ["var", y], ["const", r.below(1 << wy), wy]]]})
        self.emit({"op": "add", "h": a_i, "cs": [["eq", ["var", x], ["const", k2, wx]]]})
        if r.chance(50):
            self.emit({"op": "unsat_core", "h": a_i})
        if r.chance(60):
            self.emit({"op": "new", "cls": h.cls, "kw": dict(h.kw or {})})
            b_i = a_i + 1
            self.emit({"op": "add", "h": b_i, "cs": [["ne", ["var", y], ["const", r.below(1 << wy), wy]]]})
            conds = [self.eg.boolean(1) for _ in range(2)]
            if self.flag:
                fw = self.vars[self.flag]
                conds = [["eq", ["var", self.flag], ["const", i, fw]] for i in range(2)]
            self.emit({"op": "merge", "h": a_i, "others": [b_i], "conds": conds})
            self.emit({"op": "unsat_core", "h": -1})
            self.emit({"op": "sat", "h": -1, "extra": []})
        else:
            self.emit({"op": "split", "h": a_i})
            self.unknown_handles = min(6, self.unknown_handles + 2)
            self.emit({"op": "unsat_core", "h": {"h_var": y, "h": a_i}})

    def macro_drop_reuse(self, hi, h, live):
        """a second solver is used and then DROPPED (its memory is free for the next object), then a branch of the first
        one is queried right away: whatever identifies "the last user" of something shared must not be an address"""
        r = self.r
        if len(live) >= self.max_handles:
            return
        self.emit(self.query_op(r.choice(["eval", "sat", "max"]), hi, h))
        self.emit({"op": "new", "cls": h.cls, "kw": dict(h.kw or {})})
        bi = len([z for z in self.handles if z.alive]) - 1
        nb = self.handles[-1]
        self.emit({"op": "add", "h": bi, "cs": [self.gen_constraint(nb)]})
        self.emit(self.query_op(r.choice(["eval", "sat", "min"]), bi, nb))
        self.emit({"op": "drop", "h": bi})
        if r.chance(50):
            self.emit({"op": "gc"})
        self.emit({"op": "branch", "h": hi})
        ci = len([z for z in self.handles if z.alive]) - 1
        for _ in range(r.range(1, 3)):
            self.emit(self.query_op(r.choice(["eval", "probe", "max", "min", "solution"]), ci, self.handles[-1]))

    def macro_double_branch(self, hi, h, live):
        """solve, branch, add on the parent WITHOUT asking, branch again, then ask the first branch"""
        r = self.r
        if len(live) >= self.max_handles:
            return
        self.emit(self.query_op(r.choice(["eval", "sat", "max"]), hi, h))
        self.emit({"op": "branch", "h": hi})
        b1 = len([z for z in self.handles if z.alive]) - 1
        b1h = self.handles[-1]
        c = self.narrow_constraint(h, self.qexpr(h)) or self.gen_constraint(h)
        self.emit({"op": "add", "h": hi, "cs": [c]})
        self.emit({"op": "branch", "h": hi})
        for _ in range(r.range(1, 3)):
            self.emit(self.query_op(r.choice(["probe", "eval", "max", "min", "solution"]), b1, b1h))
        if r.chance(50):
            self.emit(self.query_op(r.choice(["probe", "eval"]), hi, h))

    def macro_branch_replacement(self, hi, h, live):
        """SolverReplacement: branch, then a replacement registered on ONE side (with and without invalidating the cache),
        then the other side is asked about the replaced variable"""
        r = self.r
        if h.cls != "SolverReplacement" or len(live) >= self.max_handles + 1:
            return
        op = self.add_replacement_op(hi, h)
        if op is None:
            return
        self.emit({"op": "branch", "h": hi})
        bi = len([z for z in self.handles if z.alive]) - 1
        writer, reader = (bi, hi) if r.chance(50) else (hi, bi)
        op["h"] = writer
        if r.chance(60):
            op["invalidate_cache"] = False
        n = op["var"]
        w = self.vars[n]
        self.emit(op)
        for _ in range(r.range(1, 3)):
            k = r.choice(["eval", "max", "min", "solution"])
            if k == "eval":
                self.emit({"op": "eval", "h": reader, "e": ["var", n], "n": (1 << w) + 1, "extra": []})
            elif k == "solution":
                self.emit({"op": "solution", "h": reader, "e": ["var", n], "v": (op["value"] + 1) % (1 << w), "extra": []})
            else:
                self.emit({"op": k, "h": reader, "e": r.choice([["var", n], ["add", ["var", n], ["const", 1, w]]]), "signed": False, "extra": []})

    def macro_combine3(self, hi, h, live):
        """three fresh solvers that have each been solved (cached models): the first over one variable, the other two
        over ANOTHER variable that they share, with different ideas about it; then the first combines the other two"""
        r = self.r
        if h.ref.kind != "enum" or len(live) >= self.max_handles:
            return
        eg = self.egf(h)
        if len(eg.bvs) < 2 or eg.simple:
            return
        a, b = r.sample(eg.bvs, 2)
        wa, wb = self.vars[a], self.vars[b]
        base = len([z for z in self.handles if z.alive])
        kb = r.below(1 << wb)
        specs = [
            [[r.choice(["ule", "uge", "ne"]), ["var", a], ["const", r.below(1 << wa), wa]]],
            [[r.choice(["ule", "eq"]), ["var", b], ["const", kb, wb]]],
            [[r.choice(["ugt", "ne", "uge"]), ["var", b], ["const", kb, wb]]],
        ]
        for i, cs in enumerate(specs):
            self.emit({"op": "new", "cls": h.cls, "kw": dict(h.kw or {})})
            self.emit({"op": "add", "h": base + i, "cs": cs})
            v = a if i == 0 else b
            k0 = r.choice(["eval", "max", "min"])
            q0 = {"op": k0, "h": base + i, "e": ["var", v], "extra": []}
            q0.update({"n": r.choice([1, 2])} if k0 == "eval" else {"signed": False})
            self.emit(self.exact_op(h, q0))
        self.emit({"op": "combine", "h": base, "others": [base + 1, base + 2]})
        for _ in range(r.range(2, 4)):
            k = r.choice(["sat", "eval", "probe", "max", "solution"])
            if k == "sat":
                self.emit({"op": "sat", "h": -1, "extra": []})
            elif k == "eval":
                self.emit(self.exact_op(h, {"op": "eval", "h": -1, "e": ["var", b], "n": (1 << wb) + 1, "extra": []}))
            elif k == "probe":
                self.emit({"op": "sat", "h": -1, "extra": [["eq", ["var", b], ["const", r.below(1 << wb), wb]]]})
            elif k == "solution":
                self.emit(self.exact_op(h, {"op": "solution", "h": -1, "e": ["var", b], "v": kb, "extra": []}))
            else:
                self.emit(self.exact_op(h, {"op": "max", "h": -1, "e": ["var", b], "signed": False, "extra": []}))

    def macro_merge_ancestor(self, hi, h, live):
        """a base with "holes" in a variable's range (which an interval cannot express), two branches of it that go different
        ways, then a merge WITH the base as common ancestor, then exact questions about the variable on the merged solver"""
        r = self.r
        if h.ref.kind != "enum" or len(live) >= self.max_handles - 1:
            return
        eg = self.egf(h)
        if not eg.bvs or eg.simple:
            return
        x = r.choice(eg.bvs)
        w = self.vars[x]
        if w < 2:
            return
        vx = ["var", x]
        self.emit({"op": "new", "cls": h.cls, "kw": dict(h.kw or {})})
        base = len([z for z in self.handles if z.alive]) - 1
        self.emit({"op": "add", "h": base, "cs": [["ne", vx, ["const", r.below(1 << w), w]]]})
        if r.chance(60):
            self.emit({"op": "add", "h": base, "cs": [["ne", ["and", vx, ["const", 1, w]], ["const", r.below(2), w]]] if eg.ok("and") else [["ne", vx, ["const", r.below(1 << w), w]]]})
        if r.chance(50):
            self.emit(self.exact_op(h, {"op": "eval", "h": base, "e": vx, "n": 2, "extra": []}))
        self.emit({"op": "branch", "h": base})
        self.emit({"op": "branch", "h": base})
        b1, b2 = base + 1, base + 2
        if self.flag:
            fw = self.vars[self.flag]
            conds = [["eq", ["var", self.flag], ["const", i, fw]] for i in range(2)]
        else:
            conds = [self.eg.boolean(1) for _ in range(2)]
        others = [n for n in eg.bvs if n != x]
        for bi in (b1, b2):
            if others and r.chance(70):
                y = r.choice(others)
                self.emit({"op": "add", "h": bi, "cs": [[r.choice(["ule", "uge", "ne"]), ["var", y], ["const", r.below(1 << self.vars[y]), self.vars[y]]]]})
        self.emit({"op": "merge", "h": b1, "others": [b2], "conds": conds, "ancestor": base})
        for _ in range(r.range(2, 4)):
            k = r.choice(["eval", "solution", "sat", "max"])
            if k == "eval":
                self.emit(self.exact_op(h, {"op": "eval", "h": -1, "e": vx, "n": (1 << w) + 1, "extra": []}))
            elif k == "solution":
                self.emit(self.exact_op(h, {"op": "solution", "h": -1, "e": vx, "v": r.below(1 << w), "extra": []}))
            elif k == "sat":
                self.emit({"op": "sat", "h": -1, "extra": [["eq", vx, ["const", r.below(1 << w), w]]]})
            else:
                self.emit(self.exact_op(h, {"op": "max", "h": -1, "e": vx, "signed": False, "extra": []}))

    def macro_replace_query_remove(self, hi, h, live):
        """SolverReplacement: a replacement set by the user, a query on a COMPOUND term over the replaced variable, the
        replacement removed again, the same query again"""
        r = self.r
        if h.cls != "SolverReplacement":
            return
        op = self.add_replacement_op(hi, h)
        if op is None:
            return
        n = op["var"]
        w = self.vars[n]
        vx = ["var", n]
        e = r.choice([["add", vx, ["const", r.range(1, (1 << w) - 1), w]], ["xor", vx, ["const", r.range(1, (1 << w) - 1), w]], ["sub", ["const", 0, w], vx]])
        self.emit(op)
        q = {"op": r.choice(["eval", "max", "min"]), "h": hi, "e": e, "extra": []}
        q.update({"n": r.choice([1, 2, (1 << w) + 1])} if q["op"] == "eval" else {"signed": False})
        self.emit(q)
        self.emit({"op": "remove_replacement", "h": hi, "var": n})
        self.emit(dict(q))
        self.emit({"op": "eval", "h": hi, "e": e, "n": (1 << w) + 1, "extra": []})

    def macro_merge3(self, hi, h, live):
        """C15: a three-way merge in which two participants share state (branches of one base) and the third has an
        unrelated history that constrains the same variables differently"""
        r = self.r
        if len(live) > self.max_handles:
            return
        bvs = [n for n in self.order if self.vars[n] > 0 and n != self.flag]
        if not bvs:
            return
        a = r.choice(bvs)
        w = self.vars[a]
        va = ["var", a]
        k1 = r.below(1 << w)
        self.emit({"op": "add", "h": hi, "cs": [[r.choice(["ule", "uge", "eq", "ne"]), va, ["const", k1, w]]]})
        if r.chance(50):
            self.emit({"op": "sat", "h": hi, "extra": []})
        self.emit({"op": "branch", "h": hi})
        self.emit({"op": "branch", "h": hi})
        self.emit({"op": "new", "cls": h.cls, "kw": dict(h.kw or {})})
        self.emit({"op": "add", "h": -1, "cs": [[r.choice(["eq", "ugt", "ult"]), va, ["const", r.below(1 << w), w]]]})
        if self.flag:
            fw = self.vars[self.flag]
            conds = [["eq", ["var", self.flag], ["const", i, fw]] for i in range(3)]
        else:
            conds = [self.eg.boolean(1) for _ in range(3)]
        order = r.choice([[-3, -2, -1], [-1, -3, -2], [-2, -1, -3]])
        self.emit({"op": "merge", "h": order[0], "others": order[1:], "conds": conds})
        for i in range(3):
            ex = [conds[i]] if r.chance(70) else []
            k = r.choice(["sat", "eval", "max"])
            if k == "sat":
                self.emit({"op": "sat", "h": -1, "extra": ex})
            elif k == "eval":
                self.emit({"op": "eval", "h": -1, "e": va, "n": r.choice([1, 3, 40]), "extra": ex})
            else:
                self.emit({"op": "max", "h": -1, "e": va, "signed": False, "extra": ex})

    def narrow_constraint(self, h, e):
        """a simple constraint on one variable of e that keeps the set satisfiable and changes the values e can take"""
        from .spec import spec_vars

        r = self.r
        if h.ref.kind != "enum" or not isinstance(e, list):
            return None
        vs = [v for v in sorted(spec_vars(e)) if self.vars.get(v, 0) > 0]
        r.shuffle(vs)
        for v in vs:
            x = ["var", v]
            vals = sorted(h.ref.values(x))
            if len(vals) < 2:
                continue
            w = self.vars[v]
            i = r.below(len(vals) - 1)
            c = r.choice([["ule", x, ["const", vals[i], w]], ["uge", x, ["const", vals[i + 1], w]], ["ne", x, ["const", r.choice(vals), w]]])
            t = h.ref.copy()
            t.add(c)
            if t.M and t.values(e) != h.ref.values(e):
                return c
        return None

    def narrow_and_requery(self, q, hi, h):
        """Invalidation pattern: after a query on a (compound) expression, narrow one of its variables and ask again - what
        was derived from the old bounds of the variable (cached values, replacement entries, exhausted marks) must go"""
        r = self.r
        if q["op"] not in ("min", "max", "eval") or q.get("extra") or not r.chance(self.p.get("narrow_requery_pct", 12)):
            return
        c = self.narrow_constraint(h, q["e"])
        if c is None:
            return
        self.emit({"op": "add", "h": hi, "cs": [c]})
        self.emit(dict(q))

    def kill_and_requery(self, q, hi, h):
        """Invalidation pattern: exclude the value a query has just returned (the optimum, or one of the evaluated
        values) with a new constraint and ask the same question again - a cache that survives the add shows at once."""
        r = self.r
        if q["op"] not in ("min", "max", "eval") or q.get("extra") or not r.chance(self.p.get("kill_requery_pct", 18)):
            return
        e = q["e"]
        w = width_of(e, self.vars)
        if w == 0:
            return
        if w == -1:
            V = sorted(h.ref.values(e))
            if V:
                self.emit({"op": "add", "h": hi, "cs": [["sne", e, ["sconst", r.choice(V)]]]})
                self.emit(dict(q))
            return
        if q["op"] == "eval":
            V = sorted(h.ref.values(e))
            if not V:
                return
            v = r.choice(V)
        else:
            v = h.ref.optimum(e, bool(q.get("signed")), q["op"] == "max")
            if v is None:
                return
        self.emit({"op": "add", "h": hi, "cs": [["ne", e, ["const", v, w]]]})
        self.emit(dict(q))
        if r.chance(30):
            other = dict(q)
            if other["op"] in ("min", "max"):
                other["signed"] = not other.get("signed", False)
            self.emit(other)

    def gen_merge(self, hi, h, live):
        r = self.r
        same = [j for j, x in enumerate(live) if x is not h and x.cls == h.cls]
        if not same or len(live) >= self.max_handles + 2:
            return None
        others = r.sample(same, r.range(1, min(2, len(same))))
        group = [h] + [live[j] for j in others]
        if self.flag and r.chance(65):
            w = self.vars[self.flag]
            conds = [["eq", ["var", self.flag], ["const", i, w]] for i in range(len(group))]
        else:
            conds = [self.eg.boolean(1) for _ in group]
        op = {"op": "merge", "h": hi, "others": others, "conds": conds}
        if r.chance(40):
            # a true common ancestor, if there is one
            def chain(x):
                out = []
                while x is not None:
                    out.append(x)
                    x = self.handles[x.parent] if x.parent is not None else None
                return out

            common = [a for a in chain(h)[1:] if all(a in chain(g) for g in group[1:]) and a.alive]
            if common:
                op["ancestor"] = live.index(r.choice(common))
        return op

    def sweep(self, hi):
        """after a mutating op on one handle, probe the *other* handles: a leak shows as a wrong answer there"""
        r = self.r
        pct = self.p.get("sweep_pct", 0)
        live = [h for h in self.handles if h.alive]
        if pct and len(live) > 1 and r.chance(pct):
            for _ in range(r.range(1, 2)):
                oj = r.below(len(live))
                if oj == hi:
                    continue
                kind = r.weighted([("probe", 5), ("eval", 3), ("sat", 1), ("min", 1), ("max", 1)])
                self.emit(self.query_op(kind, oj, live[oj]))

    def config(self):
        r = Rng(derive(self.seed, "cfg"))
        p = self.p
        return {
            "vars": self.varlist,
            "ref": self.ref_kind,
            "reuse": r.chance(p.get("reuse_pct", 25)),
            "lru": r.choice(p.get("lru_sizes", [4, 16, 64, 10000, 10000])),
            "salt": derive(self.seed, "salt") & 0xFFFFFFFF,
            **({"z3_rlimit": p["z3_rlimit"]} if p.get("z3_rlimit") else {}),
        }

    def generate(self):
        r = self.r
        p = self.p
        for _ in range(r.range(*p.get("initial_handles", (1, 1)))):
            self.new_handle()
        lo, hi = p.get("length", (3, 40))
        # many short runs, some long
        n = r.range(lo, min(hi, lo + 9)) if r.chance(55) else r.range(lo, hi)
        rec = {"config": self.config()}
        if p.get("fault_enum"):
            return self.generate_fault_enum(rec, n)
        guard = 0
        restart_at = r.range(2, max(2, n - 2)) if p.get("fresh_restart") else None
        while len(self.ops) < n and guard < 4 * n:
            guard += 1
            if restart_at is not None and len(self.ops) >= restart_at:
                self.emit({"op": "restart_fresh", "hashseed": r.choice([1, 2, 3, 99, 31337]), "proto": r.choice([2, 4, 5])})
                restart_at = None
            self.gen_op()
        rec["ops"] = self.ops
        fr = p.get("fault_rate")
        if fr:
            fr_rng = Rng(derive(self.seed, "fault"))
            kinds = p.get("fault_kinds", FAULT_KINDS)
            faults = []
            for i, op in enumerate(self.ops):
                if op["op"] in FAULTABLE and fr_rng.chance(fr):
                    k_ = fr_rng.choice(kinds + ["rlimit_real"])
                    faults.append({"op": i, "nth": fr_rng.range(1, 4), "kind": k_,
                                   "phase": fr_rng.choice([1, 25, 400]) if k_ == "rlimit_real" else fr_rng.choice(["early", "late"])})
            rec["faults"] = faults
        return rec

    def generate_fault_enum(self, rec, n):
        """prefix history, [branch], TARGET query, [branch], suffix on the faulted solver and its branches"""
        r = self.r
        fr = Rng(derive(self.seed, "fault"))
        pre = r.range(1, max(2, n // 2))
        guard = 0
        while len(self.ops) < pre and guard < 4 * pre:
            guard += 1
            self.gen_op()
        live = [h for h in self.handles if h.alive]
        hi = r.below(len(live))
        if r.chance(40) and len(live) < self.max_handles + 1:
            self.emit({"op": "branch", "h": hi})
        if r.chance(25):
            # the target then runs on a set that only solving can tell is unsatisfiable, and nobody has asked yet: a fault
            # in exactly that first satisfiability pass must not make the solver forget that it still has to ask
            lu = self.late_unsat_constraint(live[hi])
            if lu is not None:
                self.emit({"op": "add", "h": hi, "cs": [lu[0]]})
        kind = r.weighted([("eval", 6), ("batch_eval", 2), ("min", 3), ("max", 3), ("solution", 2), ("sat", 2), ("probe", 1)])
        op = self.query_op(kind, hi, live[hi])
        if op["op"] in ("eval", "batch_eval") and r.chance(60):
            op["n"] = max(op["n"], r.range(2, 6))  # several checks: blocking clauses are in flight
        target = len(self.ops)
        self.emit(op)
        live = [h for h in self.handles if h.alive]
        if r.chance(40) and len(live) < self.max_handles + 1:
            self.emit({"op": "branch", "h": hi})
        # suffix: mostly queries on the faulted handle and on its branches
        suffix = r.range(3, 9)
        w0 = dict(self.weights)
        for k in ("forget", "gc", "backend_downsize", "new"):
            self.weights[k] = 0
        end = len(self.ops) + suffix
        guard = 0
        while len(self.ops) < end and guard < 40:
            guard += 1
            if r.chance(45):
                k2 = r.weighted([("eval", 5), ("probe", 4), ("min", 2), ("max", 2), ("sat", 2), ("solution", 1), ("batch_eval", 1)])
                live = [h for h in self.handles if h.alive]
                self.emit(self.query_op(k2, hi, live[hi]))
            else:
                self.gen_op()
        self.weights = w0
        kinds = fr.sample(self.p.get("fault_kinds", FAULT_KINDS), 2)
        if fr.chance(20):
            kinds.append("interrupt")
        if fr.chance(self.p.get("real_rlimit_pct", 50)):
            kinds.append("rlimit_real")
        rec["ops"] = self.ops
        rec["fault_enum"] = {"targets": [target], "kinds": kinds, "phases": ["early", "late"]}
        if self.p.get("max_positions"):
            rec["fault_enum"]["max_positions"] = self.p["max_positions"]
        return rec


FAULT_KINDS = ["timeout", "rlimit", "memory", "unknown", "canceled", "z3exception"]
FAULTABLE = {"sat", "eval", "batch_eval", "min", "max", "solution", "unsat_core"}


ALL_EXACT = [("Solver", 4), ("SolverCacheless", 2), ("SolverComposite", 3), ("SolverReplacement", 2), ("SolverHybrid", 2),
             ("SolverStrings", 1)]
ALL_EXACT_LIST = ALL_EXACT
FLAG_SHAPES = [
    [["a", 3], ["b", 3], ["f", 2]],
    [["a", 2], ["b", 2], ["c", 2], ["f", 2]],
    [["a", 4], ["b", 2], ["f", 2]],
    [["a", 3], ["b", 2], ["p", 0], ["f", 2]],
    [["a", 2], ["b", 2], ["c", 2], ["d", 2], ["f", 2]],
    [["a", 2], ["b", 2], ["c", 2], ["d", 2], ["e", 2], ["f", 1]],
]
COMPOSITE_SHAPES = [
    [["a", 2], ["b", 2], ["c", 2], ["d", 2]],
    [["a", 2], ["b", 2], ["c", 2], ["d", 2], ["e", 2]],
    [["a", 3], ["b", 3], ["c", 3]],
    [["a", 2], ["b", 2], ["c", 2], ["d", 2], ["e", 2], ["g", 2]],
    [["a", 3], ["b", 2], ["c", 3], ["p", 0]],
    [["a", 3], ["b", 3], ["c", 2], ["d", 2], ["p", 0]],
]
# operations both the bit-vector and the interval domain express without known-unsound transfer functions
APPROX_OPS = {"add", "sub", "and", "or", "xor", "extract", "concat", "zext", "sext", "ite"}
# the part of it on which the interval domain was found to over-approximate on the unchanged tree (everything else runs into
# the transfer-function / balancer unsoundness that C21, C24 and C25 describe and that is recorded under known findings)
APPROX_CORE_OPS = {"add", "sub", "or", "xor", "ite"}

# wide alphabets: no multiplication / division (Z3 needs seconds on 64..130-bit instances, which would turn runs into
# wall-clock timeouts) - everything else of the spec language
WIDE_OPS = {"add", "sub", "and", "or", "xor", "not", "neg", "shl", "lshr", "ashr", "extract", "concat", "zext", "sext", "ite",
            "bite"}
WIDE_SHAPES = [
    [["a", 32], ["b", 32]],
    [["a", 64]],
    [["a", 64], ["b", 8]],
    [["a", 65], ["b", 65]],
    [["a", 130]],
    [["a", 16], ["b", 16], ["c", 16]],
    [["a", 33], ["p", 0]],
    [["a", 128], ["b", 64]],
]

PROFILES = {
    # wide bit-vectors: the enumeration reference is replaced by an independent Z3 (DESIGN 3.3)
    "C11wide": {
        "frontends": [("Solver", 6), ("SolverCacheless", 2)],
        "var_shapes": WIDE_SHAPES,
        "ops_allowed": WIDE_OPS,
        "ref": "z3",
        "length": (3, 24),
        "weights": {"probe": 4, "forget": 1},
        "keep_sat_pct": 0,
    },
    "C12wide": {
        "frontends": [("SolverComposite", 1)],
        "var_shapes": WIDE_SHAPES,
        "ops_allowed": WIDE_OPS,
        "ref": "z3",
        "length": (3, 24),
        "weights": {"branch": 8, "simplify": 6, "probe": 4},
        "keep_sat_pct": 0,
    },
    "C14wide": {
        "frontends": ALL_EXACT_LIST,
        "var_shapes": WIDE_SHAPES,
        "ops_allowed": WIDE_OPS,
        "ref": "z3",
        "length": (4, 24),
        "weights": {"branch": 14, "downsize": 4, "simplify": 6, "probe": 4},
        "never_swarm_out": ("branch",),
        "echo_pct": 30,
        "keep_sat_pct": 0,
        "max_handles": 5,
    },
    "C11str": {   # string histories: finite domains per string variable, so the enumeration reference stays exact
        "frontends": [("SolverStrings", 5), ("SolverCacheless", 1)],
        "var_shapes": STR_SHAPES,
        "z3_rlimit": 4000000,
        "length": (3, 25),
        "weights": {"simplify": 0, "min": 3, "max": 3, "exhaust_batch": 0, "late_unsat": 0, "backend_downsize": 2, "branch": 7},
        "reuse_pct": 35,
    },
    "C14str": {
        "frontends": [("SolverStrings", 5), ("SolverCacheless", 1)],
        "var_shapes": STR_SHAPES,
        "z3_rlimit": 4000000,
        "length": (5, 28),
        "weights": {"simplify": 0, "branch": 14, "downsize": 4, "exhaust_batch": 0, "late_unsat": 0, "pickle": 1},
        "pickle_modes": ["replace"],
        "never_swarm_out": ("branch",),
        "sweep_pct": 70,
        "echo_pct": 30,
        "max_handles": 6,
        "reuse_pct": 35,
    },
    "C18str": {
        "frontends": [("SolverStrings", 5), ("SolverCacheless", 1)],
        "var_shapes": STR_SHAPES,
        "z3_rlimit": 4000000,
        "length": (4, 24),
        "weights": {"simplify": 0, "pickle": 14, "pickle_expr": 5, "branch": 6, "exhaust_batch": 0, "late_unsat": 0},
        "never_swarm_out": ("pickle",),
        "max_handles": 6,
    },
    "C17str": {
        "frontends": [("SolverStrings", 5), ("SolverCacheless", 1)],
        "var_shapes": STR_SHAPES,
        "z3_rlimit": 4000000,
        "length": (4, 16),
        "fault_enum": True,
        "weights": {"simplify": 0, "branch": 8, "forget": 0, "gc": 0, "exhaust_batch": 0, "late_unsat": 0},
        "extra_pct": 20,
        "max_positions": 15,
    },
    "C11": {
        "frontends": [("Solver", 6), ("SolverCacheless", 2), ("SolverStrings", 1)],
        "length": (3, 40),
        "weights": {"drop_reuse": 3, "double_branch": 2},
        "reuse_pct": 35,
    },
    "C12": {
        "frontends": [("SolverComposite", 1)],
        "var_shapes": COMPOSITE_SHAPES,
        "concrete_pct": 4,
        "length": (3, 40),
        "weights": {"branch": 8, "simplify": 6, "split": 2, "combine": 2, "merge": 2, "span_branch_add": 4, "late_unsat": 4,
                    "branch_simplify_add": 4},
        "sweep_pct": 30,
    },
    "C13": {
        "frontends": [("SolverReplacement", 5), ("SolverHybrid", 5)],
        "length": (3, 30),
        "hybrid_exact": [None, None, True],
        "kw_for": {"SolverHybrid": [{}, {}, {"approximate_first": True}]},
        "approx_first_always_exact": True,
        "dup_in_list_pct": 12,
        "echo_pct": 20,
        "weights": {"pickle": 2, "downsize": 4, "branch": 6, "add_replacement": 3, "remove_replacement": 2, "branch_replacement": 3, "replace_query_remove": 4, "merge_ancestor": 3},
        "pickle_modes": ["replace"],
    },
    "C13approx": {
        "frontends": [("SolverHybrid", 5), ("SolverVSA", 2), ("SolverReplacementVSA", 2)],
        "kw_for": {"SolverHybrid": [{}, {}, {"approximate_first": True}]},
        "hybrid_exact": [False, False, None],
        "all_approx": True,
        "approx_ops_allowed": APPROX_CORE_OPS,
        "ops_allowed": APPROX_CORE_OPS,
        "approx_simple_constraints": True,
        "extra_pct": 10,
        "length": (3, 25),
        "weights": {"batch_eval": 2, "branch": 4, "simplify": 1, "split": 4, "split_cross": 3},
    },
    # the wider approximate alphabet: not run by the registered check (it runs into the known findings A1..A4 all the
    # time); kept to regenerate / re-examine them:  verif.py C13 --profile C13approx_wide --runs N
    "C13approx_wide": {
        "frontends": [("SolverHybrid", 5), ("SolverVSA", 2), ("SolverReplacementVSA", 2)],
        "kw_for": {"SolverHybrid": [{}, {}, {"approximate_first": True}]},
        "hybrid_exact": [False, False, None],
        "all_approx": True,
        "approx_ops_allowed": APPROX_OPS,
        "ops_allowed": APPROX_OPS,
        "length": (3, 25),
        "weights": {"batch_eval": 2, "branch": 4, "simplify": 1},
    },
    "C18approx": {   # approximate frontends: an unpickled solver must be as precise as the original (twin equality)
        "frontends": [("SolverHybrid", 5), ("SolverReplacementVSA", 3), ("SolverVSA", 1)],
        "kw_for": {"SolverHybrid": [{}, {"approximate_first": True}]},
        "hybrid_exact": [False, False, None],
        "all_approx": True,
        "approx_ops_allowed": APPROX_CORE_OPS,
        "ops_allowed": APPROX_CORE_OPS,
        "approx_simple_constraints": True,
        "extra_pct": 5,
        "length": (4, 22),
        "weights": {"pickle": 16, "branch": 4, "batch_eval": 1, "simplify": 1, "forget": 0},
        "pickle_modes": ["twin", "twin", "replace"],
        "never_swarm_out": ("pickle",),
        "max_handles": 6,
    },
    "C18fresh": {
        "frontends": ALL_EXACT + [("SolverVSA", 1)],
        "length": (5, 24),
        "weights": {"pickle": 4, "pickle_expr": 2, "branch": 8, "split": 0, "forget": 1},
        "approx_ops_allowed": APPROX_CORE_OPS,
        "approx_simple_constraints": True,
        "fresh_restart": True,
        "max_handles": 5,
    },
    "C14": {
        "frontends": ALL_EXACT,
        "length": (5, 40),
        "weights": {"branch": 14, "downsize": 4, "simplify": 6, "pickle": 1, "span_branch_add": 4, "late_unsat": 3, "add_replacement": 2,
                    "branch_simplify_add": 5, "drop_reuse": 3, "double_branch": 4, "branch_replacement": 4},
        "pickle_modes": ["replace"],
        "never_swarm_out": ("branch",),
        "sweep_pct": 70,
        "echo_pct": 30,
        "max_handles": 6,
    },
    "C15": {
        "frontends": [("Solver", 4), ("SolverCacheless", 2), ("SolverComposite", 4), ("SolverHybrid", 2), ("SolverReplacement", 2),
                      ("SolverStrings", 1)],
        "var_shapes": FLAG_SHAPES,
        "concrete_pct": 4,
        "length": (6, 36),
        "weights": {"branch": 14, "merge": 9, "combine": 8, "split": 6, "add": 24, "new": 4, "split_recombine": 4, "merge3": 4,
                    "bridge_split": 4, "split_cross": 3, "combine3": 4, "merge_ancestor": 5},
        "never_swarm_out": ("branch",),
        "initial_handles": (1, 2),
        "max_handles": 6,
    },
    "C16": {
        "frontends": [("Solver", 4), ("SolverComposite", 4), ("SolverHybrid", 2)],
        "kw_for": {"Solver": [{"track": True}], "SolverComposite": [{"track": True}], "SolverHybrid": [{"track": True}]},
        "concrete_pct": 4,
        "length": (3, 30),
        "keep_sat_pct": 25,
        "weights": {"unsat_core": 18, "add": 30, "branch": 6, "simplify": 5, "eval": 6, "min": 3, "max": 3, "solution": 3,
                    "batch_eval": 2, "probe": 5, "split": 4, "merge": 3, "combine": 3, "pairwise_derive": 5},
        "max_handles": 6,
        "never_swarm_out": ("unsat_core",),
        "lru_sizes": [4, 16, 64, 10000],
    },
    "C10": {
        "frontends": ALL_EXACT + [("SolverVSA", 1), ("SolverHybrid", 1)],
        "initial_handles": (1, 4),
        "length": (6, 36),
        "weights": {"is_true": 16, "is_false": 16, "g_truth": 22, "add": 22, "branch": 4, "backend_downsize": 4, "forget": 3,
                    "eval": 4, "min": 2, "max": 2, "solution": 2, "batch_eval": 1, "probe": 3, "sat": 3, "new": 3},
        "never_swarm_out": ("g_truth", "is_true", "is_false"),
        "concrete_truth_pct": 35,
        "extra_pct": 20,
        "hybrid_exact": [None, True],
        "approx_ops_allowed": APPROX_CORE_OPS,
        "approx_simple_constraints": True,
    },
    "C10approx": {   # truth claims of the approximate frontends, relative to their own constraints and across branches
        "frontends": [("SolverHybrid", 5), ("SolverVSA", 2), ("SolverReplacementVSA", 2)],
        "kw_for": {"SolverHybrid": [{}, {}, {"approximate_first": True}]},
        "hybrid_exact": [False, False, None],
        "all_approx": True,
        "approx_ops_allowed": APPROX_CORE_OPS,
        "ops_allowed": APPROX_CORE_OPS,
        "approx_simple_constraints": True,
        "initial_handles": (1, 3),
        "length": (5, 30),
        "weights": {"is_true": 18, "is_false": 18, "add": 24, "branch": 10, "g_truth": 6, "eval": 3, "min": 2, "max": 2,
                    "solution": 1, "batch_eval": 1, "probe": 3, "sat": 3, "new": 2, "simplify": 1, "forget": 2, "split": 5, "split_cross": 5},
        "never_swarm_out": ("is_true", "is_false", "branch"),
        "extra_pct": 15,
        "echo_pct": 35,
        "truth_template_pct": 25,
    },
    "C17": {
        "frontends": [("Solver", 4), ("SolverCacheless", 4), ("SolverComposite", 3), ("SolverHybrid", 2), ("SolverReplacement", 2),
                      ("SolverStrings", 1)],
        "length": (4, 18),
        "fault_enum": True,
        "weights": {"branch": 8, "forget": 0, "gc": 0},
        "extra_pct": 20,
        "max_positions": 15,
    },
    "C17all": {   # thorough: every check position of the target operation (up to 120: the cost of a run is bounded by a count)
        "frontends": [("Solver", 4), ("SolverCacheless", 4), ("SolverComposite", 3), ("SolverHybrid", 2), ("SolverReplacement", 2),
                      ("SolverStrings", 1)],
        "length": (4, 18),
        "fault_enum": True,
        "weights": {"branch": 8, "forget": 0, "gc": 0},
        "extra_pct": 20,
        "max_positions": 120,
    },
    "C17multi": {
        "frontends": [("Solver", 4), ("SolverCacheless", 4), ("SolverComposite", 3), ("SolverHybrid", 2), ("SolverReplacement", 2),
                      ("SolverStrings", 1)],
        "length": (5, 30),
        "fault_rate": 14,
        "weights": {"branch": 8},
    },
    "C18": {
        "frontends": ALL_EXACT + [("SolverVSA", 1)],
        "length": (4, 30),
        "weights": {"pickle": 14, "pickle_expr": 5, "branch": 6, "add_replacement": 2},
        "never_swarm_out": ("pickle",),
        "approx_ops_allowed": APPROX_CORE_OPS,
        "approx_simple_constraints": True,
        "max_handles": 6,
    },
}
