"""Seeded generation of configurations and operation histories (pure Python; never touches claripy).

The generator runs its own EnumRef per handle so that it can aim at interesting places (n just at |V|,
probes that are models / near-misses, histories that reach UNSAT).  What it emits is an explicit record.
"""
from __future__ import annotations

from .ref import EnumRef
from .rng import Rng, derive
from .spec import width_of

VAR_SHAPES = [
    [["a", 3], ["b", 3], ["c", 3]],
    [["a", 4], ["b", 4]],
    [["a", 2], ["b", 2], ["c", 2], ["d", 2]],
    [["a", 4], ["b", 3], ["p", 0]],
    [["a", 3], ["b", 3], ["p", 0], ["q", 0]],
    [["a", 5], ["b", 3]],
    [["a", 8]],
    [["a", 6], ["b", 4]],
    [["a", 2], ["b", 2], ["c", 2], ["d", 2], ["e", 2]],
    [["a", 3], ["b", 2], ["c", 3], ["p", 0]],
    [["a", 4], ["b", 4], ["c", 2]],
]

BIN_W = [("add", 10), ("sub", 8), ("and", 7), ("or", 6), ("xor", 7), ("mul", 4), ("shl", 2), ("lshr", 2), ("ashr", 2),
         ("udiv", 1), ("urem", 2), ("sdiv", 1), ("srem", 1)]
CMP_W = [("eq", 10), ("ne", 6), ("ult", 5), ("ule", 4), ("ugt", 4), ("uge", 4), ("slt", 4), ("sle", 3), ("sgt", 3),
         ("sge", 3)]


class ExprGen:
    def __init__(self, rng: Rng, variables: dict, ops_allowed=None):
        self.r = rng
        self.vars = variables
        self.bvs = [n for n, w in variables.items() if w > 0]
        self.bools = [n for n, w in variables.items() if w == 0]
        self.widths = sorted({variables[n] for n in self.bvs})
        self.bin_w = [(o, w) for o, w in BIN_W if ops_allowed is None or o in ops_allowed]
        self.allow = ops_allowed

    def ok(self, op):
        return self.allow is None or op in self.allow

    def const(self, w):
        r = self.r
        m = (1 << w) - 1
        c = r.weighted([(0, 3), (1, 3), (m, 2), (1 << (w - 1), 2), ((1 << (w - 1)) - 1, 1), (-1, 9)])
        if c == -1:
            c = r.below(1 << w)
        return ["const", c & m, w]

    def var_of(self, w):
        cands = [n for n in self.bvs if self.vars[n] == w]
        return ["var", self.r.choice(cands)] if cands else None

    def any_bv_var(self):
        return ["var", self.r.choice(self.bvs)]

    def leaf(self, w):
        r = self.r
        v = self.var_of(w)
        if v is not None and r.chance(72):
            return v
        if v is None and r.chance(60) and self.bvs:
            # adapt some variable to width w
            n = r.choice(self.bvs)
            vw = self.vars[n]
            if vw > w and self.ok("extract"):
                lo = r.range(0, vw - w)
                return ["extract", lo + w - 1, lo, ["var", n]]
            if vw < w and self.ok("zext"):
                return [r.choice(["zext", "sext"]) if self.ok("sext") else "zext", w - vw, ["var", n]]
        return self.const(w)

    def bv(self, w, depth):
        r = self.r
        if depth <= 0 or r.chance(30):
            return self.leaf(w)
        k = r.below(100)
        if k < 62 and self.bin_w:
            op = r.weighted(self.bin_w)
            a = self.bv(w, depth - 1)
            if op in ("udiv", "urem", "sdiv", "srem"):
                b = self.bv(w, depth - 1) if r.chance(50) else self.const(w)
                if b[0] == "const" and b[1] == 0:
                    b = ["const", 1, w]
            elif op in ("shl", "lshr", "ashr"):
                b = ["const", r.below(w + 2) & ((1 << w) - 1), w] if r.chance(70) else self.bv(w, depth - 1)
            else:
                b = self.bv(w, depth - 1)
            return [op, a, b]
        if k < 72:
            return [r.choice(["not", "neg"]), self.bv(w, depth - 1)]
        if k < 82 and self.ok("ite"):
            return ["ite", self.boolean(depth - 1), self.bv(w, depth - 1), self.bv(w, depth - 1)]
        if k < 88 and w >= 2 and self.ok("concat"):
            w1 = r.range(1, w - 1)
            return ["concat", self.bv(w1, depth - 1), self.bv(w - w1, depth - 1)]
        if k < 94 and self.ok("extract"):
            extra = r.range(1, 3)
            lo = r.range(0, extra)
            return ["extract", lo + w - 1, lo, self.bv(w + extra, depth - 1)]
        if w >= 2 and self.ok("zext"):
            k2 = r.range(1, w - 1)
            return [r.choice(["zext", "sext"]) if self.ok("sext") else "zext", k2, self.bv(w - k2, depth - 1)]
        return self.leaf(w)

    def pick_width(self):
        return self.r.choice(self.widths) if self.widths else 1

    def cmp(self, depth):
        r = self.r
        w = self.pick_width()
        op = r.weighted(CMP_W)
        a = self.bv(w, depth)
        b = self.const(w) if r.chance(55) else self.bv(w, depth)
        if r.chance(15):
            a, b = b, a
        return [op, a, b]

    def boolean(self, depth):
        r = self.r
        if not self.bvs:
            return ["var", r.choice(self.bools)] if self.bools else ["true"]
        if depth <= 0 or r.chance(45):
            if self.bools and r.chance(25):
                return ["var", r.choice(self.bools)]
            return self.cmp(max(depth, 0))
        k = r.below(100)
        if k < 35:
            return ["band"] + [self.boolean(depth - 1) for _ in range(r.range(2, 3))]
        if k < 70:
            return ["bor"] + [self.boolean(depth - 1) for _ in range(r.range(2, 3))]
        if k < 88:
            return ["bnot", self.boolean(depth - 1)]
        if k < 94 and self.ok("bite"):
            return ["bite", self.boolean(depth - 1), self.boolean(depth - 1), self.boolean(depth - 1)]
        return self.cmp(depth - 1)

    # --- shapes claripy special-cases
    def constraint(self, ref: EnumRef | None = None):
        r = self.r
        k = r.below(100)
        if not self.bvs:
            return self.boolean(1)
        n = r.choice(self.bvs)
        w = self.vars[n]
        x = ["var", n]
        if k < 14:
            return ["eq", x, self.const(w)] if r.chance(80) else ["eq", self.const(w), x]
        if k < 22:
            return ["ne", x, self.const(w)]
        if k < 32:
            ks = [self.const(w) for _ in range(r.range(2, 3))]
            return ["bor"] + [["eq", x, c] for c in ks]
        if k < 44:
            return [r.choice(["ult", "ule", "ugt", "uge", "slt", "sle", "sgt", "sge"]), x, self.const(w)]
        if k < 54:
            # relation between variables
            y = self.var_of(w)
            if y is not None and y != x:
                return [r.weighted(CMP_W), x, r.choice([y, ["add", y, self.const(w)], ["xor", y, self.const(w)]])]
            return self.cmp(1)
        if k < 60 and self.bools:
            b = ["var", r.choice(self.bools)]
            return r.choice([b, ["bnot", b], ["bor", b, self.cmp(0)], ["beq", b, self.cmp(0)]])
        if k < 66:
            return ["eq", self.bv(w, 1), self.const(w)]
        if k < 72:
            return ["bnot", self.cmp(1)]
        if k < 78:
            return ["band", self.cmp(0), self.cmp(0)]
        if k < 80:
            return r.choice([["true"], ["false"]]) if r.chance(50) else ["eq", self.const(w), self.const(w)]
        return self.boolean(2)

    def query(self):
        """BV expression to evaluate / optimise"""
        r = self.r
        w = self.pick_width()
        k = r.below(100)
        if k < 45:
            v = self.var_of(w)
            if v is not None:
                return v
        if k < 75:
            return self.bv(w, 1)
        if k < 97:
            return self.bv(w, 2)
        return self.const(w)


# ---------------------------------------------------------------------------------------------

DEFAULT_WEIGHTS = {
    "add": 22, "sat": 8, "eval": 16, "batch_eval": 5, "min": 9, "max": 9, "solution": 8, "is_true": 3, "is_false": 3,
    "simplify": 4, "downsize": 2, "branch": 5, "probe": 12, "forget": 2, "gc": 1, "backend_downsize": 1,
}


class HistoryGen:
    """Generates one record for the solver-history machine."""

    def __init__(self, seed: int, profile: dict):
        self.seed = seed
        self.p = profile
        self.r = Rng(derive(seed, "gen"))
        r = self.r
        shapes = profile.get("var_shapes", VAR_SHAPES)
        self.varlist = [list(v) for v in r.choice(shapes)]
        self.vars = {n: w for n, w in self.varlist}
        self.order = [n for n, _ in self.varlist]
        self.eg = ExprGen(r, self.vars, profile.get("ops_allowed"))
        self.base = EnumRef(self.vars, self.order)
        self.refs = []  # per live handle
        self.ops = []
        self.recent = []  # recently used query expressions (re-query bias)
        self.recent_cs = []
        self.weights = dict(DEFAULT_WEIGHTS)
        self.weights.update(profile.get("weights", {}))
        # swarm: knock out a random subset of op kinds per run
        if profile.get("swarm", True):
            for k in list(self.weights):
                if k not in ("add", "eval") and r.chance(18):
                    self.weights[k] = 0
        self.max_handles = profile.get("max_handles", 5)

    # -- helpers
    def extras(self, ref):
        r = self.r
        pe = self.p.get("extra_pct", 30)
        if not r.chance(pe):
            return []
        k = r.below(100)
        if k < 70:
            return [self.eg.constraint()]
        if k < 90:
            return [self.eg.constraint(), self.eg.constraint()]
        return [self.assignment_constraint(self.pick_assignment(ref, "model"))[0]]

    def pick_assignment(self, ref, how):
        r = self.r
        M = ref.M
        if how == "model" and M:
            return list(r.choice(M))
        if how == "near" and M:
            m = list(r.choice(M))
            i = r.below(len(m))
            w = self.vars[self.order[i]]
            m[i] = (m[i] ^ (1 << r.below(max(w, 1)))) & ((1 << max(w, 1)) - 1)
            return m
        return [r.below(2 if self.vars[n] == 0 else 1 << self.vars[n]) for n in self.order]

    def assignment_constraint(self, m, subset=None):
        cs = []
        for i, n in enumerate(self.order):
            if subset is not None and n not in subset:
                continue
            w = self.vars[n]
            if w == 0:
                cs.append(["var", n] if m[i] else ["bnot", ["var", n]])
            else:
                cs.append(["eq", ["var", n], ["const", m[i], w]])
        return cs

    def qexpr(self):
        r = self.r
        if self.recent and r.chance(self.p.get("requery_pct", 45)):
            return r.choice(self.recent)
        e = self.eg.query()
        self.recent.append(e)
        if len(self.recent) > 6:
            self.recent.pop(0)
        return e

    def gen_constraint(self, ref):
        r = self.r
        if self.recent_cs and r.chance(8):
            return r.choice(self.recent_cs)  # duplicate add
        c = self.eg.constraint(ref)
        self.recent_cs.append(c)
        if len(self.recent_cs) > 8:
            self.recent_cs.pop(0)
        return c

    def pick_n(self, ref, e, extras):
        r = self.r
        nv = len(ref.values(e, extras))
        k = r.below(100)
        if k < 25:
            return max(1, nv)
        if k < 45:
            return nv + 1
        if k < 60:
            return max(1, nv - 1)
        if k < 75:
            return 1
        if k < 85:
            return 2
        return r.range(1, 20)

    def emit(self, op):
        self.ops.append(op)

    def new_handle(self, cls=None, kw=None):
        r = self.r
        if cls is None:
            cls = r.weighted(self.p["frontends"])
        if kw is None:
            kw = {}
            kwf = self.p.get("kw_for", {}).get(cls)
            if kwf:
                kw = dict(r.choice(kwf))
        self.emit({"op": "new", "cls": cls, "kw": kw})
        self.refs.append(self.base.with_models(self.base.universe))

    def gen_op(self):
        r = self.r
        hi = r.below(len(self.refs))
        ref = self.refs[hi]
        kinds = [(k, w) for k, w in self.weights.items() if w > 0]
        kind = r.weighted(kinds)
        op = {"h": hi}
        if kind == "add":
            ncs = 1 if r.chance(80) else r.range(2, 3)
            cs = [self.gen_constraint(ref) for _ in range(ncs)]
            # keep most solvers satisfiable most of the time: resample a killer constraint sometimes
            if r.chance(self.p.get("keep_sat_pct", 70)):
                for _ in range(4):
                    t = ref.copy()
                    for c in cs:
                        t.add(c)
                    if t.M:
                        break
                    cs = [self.gen_constraint(ref)]
            op.update(op="add", cs=cs)
            if len(cs) == 1 and r.chance(30):
                op["as_list"] = False
            for c in cs:
                ref.add(c)
        elif kind == "sat":
            op.update(op="sat", extra=self.extras(ref))
        elif kind == "probe":
            how = r.weighted([("model", 5), ("near", 4), ("rand", 2)])
            m = self.pick_assignment(ref, how)
            subset = None
            if r.chance(30):
                subset = set(r.sample(self.order, r.range(1, len(self.order))))
            op.update(op="sat", extra=self.assignment_constraint(m, subset), probe=how)
        elif kind == "eval":
            e = self.qexpr()
            ex = self.extras(ref)
            op.update(op="eval", e=e, n=self.pick_n(ref, e, ex), extra=ex)
        elif kind == "batch_eval":
            es = [self.qexpr() for _ in range(r.range(1, 3))]
            ex = self.extras(ref)
            nt = len(ref.tuples(es, ex))
            n = r.choice([1, 2, max(1, nt), nt + 1, max(1, nt - 1), r.range(1, 12)])
            op.update(op="batch_eval", es=es, n=n, extra=ex)
        elif kind in ("min", "max"):
            op.update(op=kind, e=self.qexpr(), signed=r.chance(45), extra=self.extras(ref))
        elif kind == "solution":
            e = self.qexpr()
            ex = self.extras(ref)
            w = width_of(e, self.vars)
            V = sorted(ref.values(e, ex))
            k = r.below(100)
            if k < 40 and V:
                v = r.choice(V)
            elif k < 75:
                v = r.below(1 << w)
            elif k < 90:
                v = self.eg.bv(w, 1)
            else:
                v = self.eg.const(w)
            op.update(op="solution", e=e, v=v, extra=ex)
        elif kind in ("is_true", "is_false"):
            e = r.choice(self.recent_cs) if (self.recent_cs and r.chance(50)) else self.eg.boolean(1)
            op.update(op=kind, e=e, extra=self.extras(ref) if r.chance(30) else [])
        elif kind in ("simplify", "downsize"):
            op.update(op=kind)
        elif kind == "branch":
            if len(self.refs) >= self.max_handles:
                return self.gen_op()
            op.update(op="branch")
            self.refs.append(ref.copy())
        elif kind == "forget":
            if r.chance(30) or not self.recent:
                op = {"op": "forget_all"}
            else:
                op = {"op": "forget", "e": r.choice(self.recent)}
        elif kind == "gc":
            op = {"op": "gc"}
        elif kind == "backend_downsize":
            op = {"op": "backend_downsize", "which": r.choice(["z3", "z3", "concrete", "vsa"])}
        else:
            raise AssertionError(kind)
        self.emit(op)

    def config(self):
        r = Rng(derive(self.seed, "cfg"))
        p = self.p
        return {
            "vars": self.varlist,
            "reuse": r.chance(p.get("reuse_pct", 25)),
            "lru": r.choice(p.get("lru_sizes", [4, 16, 64, 10000, 10000])),
            "salt": derive(self.seed, "salt") & 0xFFFFFFFF,
            "prewarm": r.chance(20),
        }

    def generate(self):
        r = self.r
        p = self.p
        self.new_handle()
        lo, hi = p.get("length", (3, 40))
        # many short runs, some long
        n = r.range(lo, min(hi, lo + 9)) if r.chance(55) else r.range(lo, hi)
        for _ in range(n):
            self.gen_op()
        return {"config": self.config(), "ops": self.ops}


PROFILES = {
    "C11": {
        "frontends": [("Solver", 6), ("SolverCacheless", 2)],
        "length": (3, 40),
    },
}
