"""Deterministic thread scheduler: real OS threads that hold a baton; the choice of who runs is the simulator's.

Pre-emption points are sys.monitoring (PEP 669) LINE or INSTRUCTION events on selected code objects, contention on a
SimLock, and explicit yield() calls.  At every point the running thread asks the scheduler, which picks the next
runnable thread from a seeded policy; all other threads are parked on their own Event.  One seed = one interleaving.
"""
from __future__ import annotations

import hashlib
import sys
import threading

from .rng import Rng

TOOL_ID = 4  # a free sys.monitoring tool id


class Deadlock(Exception):
    pass


class Abort(BaseException):
    """raised inside parked threads to unwind them when the run is over"""


class Scheduler:
    def __init__(self, seed, policy="random", switch_pct=30, pct_depth=3, max_steps=200000):
        self.rng = Rng(seed)
        self.policy = policy
        self.switch_pct = switch_pct
        self.max_steps = max_steps
        self.threads = {}  # tid -> Thread state
        self.order = []
        self.current = None
        self.steps = 0
        self.switches = 0
        self.trace = hashlib.sha256()
        self.on_step = None  # callback(tid, where) evaluated at every scheduling point (invariants)
        self.failure = None
        self.aborting = False
        self.lock_waiters = {}
        self.pct_prio = {}
        self.pct_changes = set()
        self.pct_depth = pct_depth
        self.expected_steps = 400
        self.switch_log = []
        self._mon_codes = []
        self._granularity = None
        self.events = 0
        self.line_budget = None  # watch_files: LINE events after which line-level pre-emption stops (deterministic)
        self.coarse = False  # True once the line budget is used up
        self.ticks = 0  # progress marks from the engine (ops, Z3 checks): only read by the stall detector

    # ------------------------------------------------------------------ thread registry
    def add_thread(self, tid, fn):
        st = {"tid": tid, "fn": fn, "event": threading.Event(), "state": "new", "thread": None, "blocked_on": None,
              "exc": None}
        self.threads[tid] = st
        self.order.append(tid)
        if self.policy == "pct":
            self.pct_prio[tid] = self.rng.range(10, 1000)

    def runnable(self):
        return [t for t in self.order if self.threads[t]["state"] in ("ready", "running")]

    # ------------------------------------------------------------------ monitoring
    def watch(self, codes, granularity="line"):
        mon = sys.monitoring
        self._granularity = granularity
        try:
            mon.use_tool_id(TOOL_ID, "verif-sched")
        except ValueError:
            pass
        ev = mon.events.LINE if granularity == "line" else mon.events.INSTRUCTION
        mon.register_callback(TOOL_ID, ev, self._on_event)
        for c in codes:
            mon.set_local_events(TOOL_ID, c, ev)
            self._mon_codes.append(c)

    def watch_files(self, path_prefix, mean_run=100, line_budget=2000000):
        """pre-emption points = LINE events in every code object whose file lies under path_prefix; a scheduling decision
        is taken when the running thread's run-length budget (geometric, drawn from the schedule PRNG) is used up.

        The cost of a run is bounded by a count, never by a clock: after `line_budget` LINE events of baton holders
        (a function of the seed alone) line-level pre-emption is switched off and the rest of the run is scheduled at
        lock contention and thread exit only - a coarser but equally legal schedule, with every oracle still on."""
        mon = sys.monitoring
        self._granularity = "files"
        self._prefix = path_prefix
        self.mean_run = mean_run
        self.line_budget = line_budget
        self.coarse = False
        self._budget = self._draw_budget()
        try:
            mon.use_tool_id(TOOL_ID, "verif-sched")
        except ValueError:
            pass
        mon.register_callback(TOOL_ID, mon.events.LINE, self._on_file_event)
        mon.set_events(TOOL_ID, mon.events.LINE)
        mon.restart_events()

    def _draw_budget(self):
        # geometric-ish: uniform in [1, 2*mean]
        return self.rng.range(1, 2 * self.mean_run)

    def _on_file_event(self, code, line):
        if not code.co_filename.startswith(self._prefix):
            return sys.monitoring.DISABLE
        tid = getattr(_tls, "tid", None)
        if tid is None or self.aborting:
            if self.aborting and tid is not None:
                raise Abort
            return None
        if self.current != tid:
            return None
        self.events += 1
        if self.line_budget is not None and self.events >= self.line_budget:
            if not self.coarse:
                self.coarse = True
                self.trace.update(b"coarse")
                sys.monitoring.set_events(TOOL_ID, 0)
            return None
        self._budget -= 1
        if self._budget > 0:
            return None
        self._budget = self._draw_budget()
        self.point(tid, (code.co_name, line))
        return None

    def unwatch(self):
        if self._granularity == "files":
            try:
                sys.monitoring.set_events(TOOL_ID, 0)
            except Exception:  # noqa: BLE001
                pass
        mon = sys.monitoring
        for c in self._mon_codes:
            try:
                mon.set_local_events(TOOL_ID, c, 0)
            except Exception:  # noqa: BLE001
                pass
        self._mon_codes = []
        try:
            mon.register_callback(TOOL_ID, mon.events.LINE, None)
            mon.register_callback(TOOL_ID, mon.events.INSTRUCTION, None)
            mon.free_tool_id(TOOL_ID)
        except Exception:  # noqa: BLE001
            pass

    def _on_event(self, code, where):
        tid = getattr(_tls, "tid", None)
        if tid is None or self.aborting:
            return
        self.point(tid, (code.co_name, where))

    # ------------------------------------------------------------------ scheduling points
    def point(self, tid, where):
        """called by the running thread at a pre-emption point"""
        if self.aborting:
            raise Abort
        if self.current != tid:
            return  # events from a thread that does not hold the baton (start-up) are not scheduling points
        self.steps += 1
        self.trace.update(repr((tid, where)).encode())
        if self.on_step is not None and self.failure is None:
            try:
                self.on_step(tid, where)
            except Exception as e:  # noqa: BLE001
                self.failure = e
                self._abort_all(tid)
                raise Abort from None
        if self.steps > self.max_steps:
            self.failure = RuntimeError("step cap exceeded")
            self._abort_all(tid)
            raise Abort
        nxt = self._choose(tid)
        if nxt != tid:
            self._switch(tid, nxt)

    def _choose(self, tid):
        run = self.runnable()
        if not run:
            return tid
        if self.policy == "pct":
            if self.steps in self.pct_changes:
                self.pct_prio[tid] = self.rng.range(0, 9)  # demote
            return max(run, key=lambda t: self.pct_prio[t])
        if tid in run and not self.rng.chance(self.switch_pct):
            return tid
        others = [t for t in run if t != tid] or run
        return self.rng.choice(others)

    def _switch(self, frm, to):
        self.switches += 1
        if len(self.switch_log) < 400:
            self.switch_log.append([self.steps, to])
        me = self.threads[frm]
        if me["state"] == "running":
            me["state"] = "ready"
        self._resume(to)
        self._park(frm)

    def _resume(self, tid):
        st = self.threads[tid]
        st["state"] = "running"
        self.current = tid
        if st["thread"] is None and st.get("is_main"):
            st["event"].set()
        elif st["thread"] is None:
            st["thread"] = threading.Thread(target=self._thread_main, args=(tid,), name=f"actor-{tid}", daemon=True)
            st["thread"].start()
        else:
            st["event"].set()

    def _park(self, tid):
        st = self.threads[tid]
        ev = st["event"]
        ev.wait()
        ev.clear()
        if self.aborting:
            raise Abort

    def _thread_main(self, tid):
        _tls.tid = tid
        st = self.threads[tid]
        try:
            st["fn"]()
        except Abort:
            pass
        except BaseException as e:  # noqa: BLE001
            st["exc"] = e
            if self.failure is None:
                self.failure = e
            self._abort_all(tid)
        finally:
            _tls.tid = None
            st["state"] = "done"
            self._thread_finished(tid)

    def _thread_finished(self, tid):
        if self.aborting:
            self._main_wake.set()
            return
        run = self.runnable()
        if run:
            nxt = self.rng.choice(run) if self.policy != "pct" else max(run, key=lambda t: self.pct_prio[t])
            self._resume(nxt)
        else:
            blocked = [t for t in self.order if self.threads[t]["state"] == "blocked"]
            if blocked and self.failure is None:
                self.failure = Deadlock(f"threads {blocked} blocked forever")
                self._abort_all(None)
            self._main_wake.set()

    def _abort_all(self, except_tid):
        self.aborting = True
        for t, st in self.threads.items():
            if t != except_tid:
                st["event"].set()
        self._main_wake.set()

    # ------------------------------------------------------------------ blocking (SimLock)
    def block(self, tid, lock):
        st = self.threads[tid]
        st["state"] = "blocked"
        st["blocked_on"] = lock
        run = self.runnable()
        if not run:
            self.failure = Deadlock("all threads blocked on the lock")
            self._abort_all(tid)
            raise Abort
        nxt = self.rng.choice(run) if self.policy != "pct" else max(run, key=lambda t: self.pct_prio[t])
        self.switches += 1
        self._resume(nxt)
        self._park(tid)

    def unblock(self, lock):
        for t in self.order:
            st = self.threads[t]
            if st["state"] == "blocked" and st["blocked_on"] is lock:
                st["state"] = "ready"
                st["blocked_on"] = None

    # ------------------------------------------------------------------ run
    def run(self, main_tid=None):
        """start: the first chosen thread gets the baton; returns when all threads are done (or on failure).
        If main_tid is given, that actor's function is executed by the *calling* thread."""
        self._main_wake = threading.Event()
        if self.policy == "pct":
            for _ in range(self.pct_depth):
                self.pct_changes.add(self.rng.range(1, self.expected_steps))
        for st in self.threads.values():
            st["state"] = "ready"
        first = self.rng.choice(self.order) if self.policy != "pct" else max(self.order, key=lambda t: self.pct_prio[t])
        if main_tid is not None:
            st = self.threads[main_tid]
            st["is_main"] = True
            _tls.tid = main_tid
            self.current = first
            if first != main_tid:
                self._resume(first)
                try:
                    self._park(main_tid)
                except Abort:
                    pass
            else:
                st["state"] = "running"
            if not self.aborting:
                try:
                    st["fn"]()
                except Abort:
                    pass
                except BaseException as e:  # noqa: BLE001
                    st["exc"] = e
                    if self.failure is None:
                        self.failure = e
                    self._abort_all(main_tid)
            _tls.tid = None
            st["state"] = "done"
            self._thread_finished(main_tid)
        else:
            self._resume(first)
        # wait for the end.  A stall is "no progress", never "slow": the run's cost is bounded by counts (max_steps,
        # line_budget); the clock only notices a baton that nobody holds any more (a harness defect, reported as such).
        seen, idle = None, 0
        while True:
            self._main_wake.wait(timeout=30)
            if self.aborting or all(s["state"] == "done" for s in self.threads.values()):
                break
            if not self._main_wake.is_set():
                now = (self.steps, self.events, self.switches, self.ticks)
                idle = idle + 1 if now == seen else 0
                seen = now
                if idle >= 3:
                    self.failure = self.failure or RuntimeError("scheduler stalled (no progress for 90 s)")
                    self._abort_all(None)
                    break
                continue
            self._main_wake.clear()
        for st in self.threads.values():
            if st["thread"] is not None:
                st["thread"].join(timeout=5)
        return self.failure

    def digest(self):
        return self.trace.hexdigest()[:16]


_tls = threading.local()


class SimLock:
    """scheduler-aware replacement for threading.Lock (a real lock would deadlock the baton)"""

    def __init__(self, sched: Scheduler):
        self.sched = sched
        self.owner = None
        self.contended = 0
        self.on_acquire = None  # optional fault hook: called with the acquiring thread id before anything else; may raise

    def acquire(self, blocking=True, timeout=-1):
        tid = getattr(_tls, "tid", None)
        if tid is None:
            self.owner = "outside"
            return True
        if self.on_acquire is not None:
            self.on_acquire(tid)
        while self.owner is not None:
            self.contended += 1
            self.sched.block(tid, self)
        self.owner = tid
        return True

    def release(self):
        self.owner = None
        self.sched.unblock(self)

    def locked(self):
        return self.owner is not None

    __enter__ = acquire

    def __exit__(self, *a):
        self.release()
