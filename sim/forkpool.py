"""Fork-per-run executor: every simulated run executes in a child forked from an identically warmed parent
(DESIGN 2.1).  The parent never touches claripy/Z3 after warm-up; it only forks, selects and collects."""
from __future__ import annotations

import faulthandler
import json
import os
import select
import signal
import sys
import time
import traceback


def _child(fn, job, wfd, limit_s):
    try:
        faulthandler.dump_traceback_later(limit_s, exit=False, file=sys.stderr)
        try:
            res = fn(job)
        except BaseException:  # noqa: BLE001
            res = {"status": "harness_error", "error": traceback.format_exc()[-3000:]}
        faulthandler.cancel_dump_traceback_later()
        data = json.dumps(res).encode()
    except BaseException:  # noqa: BLE001
        data = json.dumps({"status": "harness_error", "error": traceback.format_exc()[-3000:]}).encode()
    try:
        off = 0
        while off < len(data):
            off += os.write(wfd, data[off:off + 65536])
    finally:
        os._exit(0)


def run_jobs(fn, jobs, workers=16, limit_s=60, on_result=None):
    """jobs: iterable of JSON-able jobs.  fn(job) -> JSON-able dict, executed in a forked child.
    Results are delivered to on_result(job, result) in completion order, or returned as a list in job order."""
    jobs_it = iter(enumerate(jobs))
    active = {}  # fd -> [pid, idx, job, chunks, t0]
    results = {}
    done = False
    while True:
        while not done and len(active) < workers:
            try:
                idx, job = next(jobs_it)
            except StopIteration:
                done = True
                break
            r, w = os.pipe()
            sys.stdout.flush()
            sys.stderr.flush()
            pid = os.fork()
            if pid == 0:
                os.close(r)
                for fd in list(active):
                    try:
                        os.close(fd)
                    except OSError:
                        pass
                _child(fn, job, w, limit_s)
            os.close(w)
            active[r] = [pid, idx, job, [], time.monotonic()]
        if not active:
            if done:
                break
            continue
        ready, _, _ = select.select(list(active), [], [], 1.0)
        now = time.monotonic()
        for fd in ready:
            ent = active[fd]
            chunk = os.read(fd, 1 << 16)
            if chunk:
                ent[3].append(chunk)
                continue
            os.close(fd)
            del active[fd]
            _, st = os.waitpid(ent[0], 0)
            data = b"".join(ent[3])
            if data:
                try:
                    res = json.loads(data)
                except ValueError:
                    res = {"status": "harness_error", "error": "unparsable child output"}
            else:
                res = {"status": "crash", "wait_status": st,
                       "signal": (os.WTERMSIG(st) if os.WIFSIGNALED(st) else None)}
            res["wall_s"] = round(now - ent[4], 3)
            if on_result is not None:
                on_result(ent[2], res)
            else:
                results[ent[1]] = res
        for fd, ent in list(active.items()):
            if now - ent[4] > limit_s + 10:
                try:
                    os.kill(ent[0], signal.SIGKILL)
                except ProcessLookupError:
                    pass
                os.close(fd)
                del active[fd]
                os.waitpid(ent[0], 0)
                res = {"status": "timeout", "wall_s": round(now - ent[4], 3)}
                if on_result is not None:
                    on_result(ent[2], res)
                else:
                    results[ent[1]] = res
    if on_result is None:
        return [results[i] for i in sorted(results)]
    return None
