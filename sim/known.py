"""Known findings (DESIGN 6): read-only at run time.  An entry matches a *minimised* violating record when its
property list contains the running property and its matcher (a small predicate over record + failure) holds."""
from __future__ import annotations

import json
import os

PATH = os.path.join(os.path.dirname(os.path.dirname(os.path.abspath(__file__))), "known_findings.json")


def load():
    with open(PATH) as f:
        data = json.load(f)
    return [e for e in data.get("open", [])]


def load_all():
    with open(PATH) as f:
        return json.load(f)


def _ops_of(rec, kind):
    return [o for o in rec.get("ops", []) if o.get("op") == kind]


def match(entries, prop, rec, res):
    v = res.get("violation") or {}
    d = v.get("detail") or {}
    exc = d.get("exc") or {}
    for e in entries:
        if prop not in e.get("properties", []):
            continue
        m = e["match"]
        if "clause" in m and v.get("clause") not in m["clause"]:
            continue
        if "cls" in m and d.get("cls") not in m["cls"]:
            continue
        if "op" in m and d.get("op") not in m["op"]:
            continue
        if "exc_type" in m and exc.get("type") not in m["exc_type"]:
            continue
        if "exc_site" in m and exc.get("site") not in m["exc_site"]:
            continue
        pred = m.get("predicate")
        if pred and not PREDICATES[pred](rec, res, m):
            continue
        return e
    return None


PREDICATES = {}


def predicate(f):
    PREDICATES[f.__name__] = f
    return f


def _spec_ops(sp, acc):
    if isinstance(sp, list) and sp and isinstance(sp[0], str):
        acc.add(sp[0])
        for a in sp[1:]:
            _spec_ops(a, acc)
    return acc


@predicate
def constraint_uses_ops(rec, res, m):
    """some constraint added in the (minimised) history uses one of the given spec operators"""
    ops = set()
    for o in rec.get("ops", []):
        if o.get("op") == "add":
            for c in o.get("cs", []):
                _spec_ops(c, ops)
    return bool(ops & set(m["ops_any"]))


@predicate
def query_uses_ops(rec, res, m):
    """the failing query's expression(s) use one of the given spec operators"""
    k = (res.get("violation") or {}).get("detail", {}).get("op_index")
    ops = set()
    if k is not None and k < len(rec.get("ops", [])):
        o = rec["ops"][k]
        for f in ("e", "v"):
            _spec_ops(o.get(f), ops)
        for f in ("es", "extra"):
            for c in o.get(f) or []:
                _spec_ops(c, ops)
    return bool(ops & set(m["ops_any"]))
