"""Fresh-interpreter restart (C18): only the pickles survive.  Invoked as `verif.py _resume` with another PYTHONHASHSEED;
stdin = JSON {record, at, blob (base64 pickle of {"solvers": [...], "slots": {spec-json: ast}})}; stdout = result JSON."""
from __future__ import annotations

import base64
import json
import pickle
import sys


def deep(a):
    """deep structure of an AST compared field by field (not through __eq__/__hash__)"""
    from claripy.ast import Base

    if isinstance(a, Base):
        anns = sorted((type(x).__name__, repr(sorted(vars(x).items())) if hasattr(x, "__dict__") else repr(x)) for x in a.annotations)
        return [a.op, getattr(a, "length", None), [deep(x) for x in a.args], anns]
    if isinstance(a, (int, str, bool, float)) or a is None:
        return [type(a).__name__, repr(a)]
    return [type(a).__name__, repr(a)]


def main():
    req = json.loads(sys.stdin.read())
    rec, at = req["record"], req["at"]
    import claripy

    from . import spec as S
    from .engine_history import alphabet_filter, setup_run
    from .machine import Machine, Violation, Z3Seam

    setup_run(claripy, rec["config"])
    out = {"status": "ok"}
    try:
        state = pickle.loads(base64.b64decode(req["blob"]))
    except Exception as e:  # noqa: BLE001
        import traceback

        out = {"status": "violation", "violation": {"clause": "unpickle-failed-in-fresh-process", "detail": {
            "op_index": at, "cls": None, "op": "restart_fresh", "exc": {"type": type(e).__name__, "msg": str(e)[:300],
                                                                         "site": traceback.format_exc()[-400:]}}}}
        print(json.dumps(out))
        return
    # rebuild reference/handle bookkeeping from the op prefix (pure data)
    dry = Machine(rec, None)
    dry.rec = dict(rec, ops=rec["ops"][:at])
    dry.run()
    seam = Z3Seam()
    seam.install()
    m = Machine(rec, claripy, seam)
    m.handles = dry.handles
    live = [h for h in m.handles if h.alive]
    if len(live) != len(state["solvers"]):
        print(json.dumps({"status": "harness_error", "error": f"handle count mismatch {len(live)} vs {len(state['solvers'])}"}))
        return
    for h, s in zip(live, state["solvers"]):
        h.solver = s
    m.slots = dict(state["slots"])
    m.start_at = at + 1
    m.stats["restarts"] = 1
    try:
        # expressions: unpickled vs rebuilt from the spec in this process must be deep-structurally equal
        for key, a in state["slots"].items():
            sp = json.loads(key)
            try:
                b = S.build_claripy(sp, m.variables, claripy)
            except claripy.errors.ClaripyError:
                continue
            if deep(a) != deep(b):
                raise Violation("unpickled-expression-differs", {"op_index": at, "cls": None, "op": "restart_fresh", "e": sp,
                                                                   "unpickled": str(a)[:120], "rebuilt": str(b)[:120]})
            if b is not a:
                # structurally equal expressions must be one object in the new process as well
                raise Violation("unpickled-expression-not-hash-consed", {"op_index": at, "cls": None, "op": "restart_fresh",
                                                                          "e": sp})
        m.run()
    except Violation as v:
        seam.plan = {}
        bad = alphabet_filter(claripy, m, v.detail.get("specs") or [])
        d = dict(v.detail)
        d.pop("specs", None)
        if bad:
            out = {"status": "excluded", "excluded": bad[:3], "violation": {"clause": v.clause, "detail": d}}
        else:
            out = {"status": "violation", "violation": {"clause": v.clause, "detail": d}}
    out["digest"] = m.digest()
    out["stats"] = m.stats
    out["stats"]["checks"] = seam.total
    print(json.dumps(out))
