"""Persistent in-process workers.

Measured on this sandbox: minor page faults are serialised VM-wide (~35 k faults/s in total), so a
fork-per-run design tops out at ~10 runs/s no matter how many cores are used (a forked run child takes ~3 200
copy-on-write faults).  Exploration therefore runs many histories back to back inside long-lived workers that
are forked ONCE from the warmed group parent; a worker's behaviour is a pure function of the sequence of jobs it
executes, which it records, so that a violation that depends on carry-over between runs can still be replayed
(sequence replay).  Pristine forked children (forkpool) are used only to confirm and minimise violations.
"""
from __future__ import annotations

import json
import os
import select
import signal
import sys
import time
import traceback


class Worker:
    __slots__ = ("pid", "wfd", "rfd", "buf", "pending", "current", "t_last", "wid", "done_jobs")

    def __init__(self, wid):
        self.wid = wid
        self.pending = []
        self.current = None
        self.buf = b""
        self.done_jobs = []


def _worker_main(fn, rfd, wfd, wid):
    """child: read JSON lines (each a list of jobs) until EOF; for every job write a start marker and a result."""
    out = os.fdopen(wfd, "w", buffering=1)
    inp = os.fdopen(rfd, "r")
    executed = []
    for line in inp:
        line = line.strip()
        if not line:
            continue
        jobs = json.loads(line)
        for job in jobs:
            out.write(json.dumps({"_start": job.get("id")}) + "\n")
            try:
                res = fn(job, executed)
            except BaseException:  # noqa: BLE001
                res = {"status": "harness_error", "error": traceback.format_exc()[-3000:]}
            res["_id"] = job.get("id")
            res["_wid"] = wid
            out.write(json.dumps(res) + "\n")
            executed.append(job.get("id"))
        out.write(json.dumps({"_batch_done": True}) + "\n")
    os._exit(0)


class Pool:
    def __init__(self, fn, n):
        self.fn = fn
        self.n = n
        self.workers = [self._spawn(i) for i in range(n)]

    def _spawn(self, wid):
        w = Worker(wid)
        pr, cw = os.pipe()  # child -> parent
        cr, pw = os.pipe()  # parent -> child
        sys.stdout.flush()
        sys.stderr.flush()
        pid = os.fork()
        if pid == 0:
            os.close(pr)
            os.close(pw)
            for o in getattr(self, "workers", []):
                for fd in (o.rfd, o.wfd):
                    if fd < 0 or fd in (cr, cw):
                        continue
                    try:
                        os.close(fd)
                    except OSError:
                        pass
            try:
                _worker_main(self.fn, cr, cw, wid)
            finally:
                os._exit(1)
        os.close(cw)
        os.close(cr)
        w.pid, w.rfd, w.wfd = pid, pr, pw
        w.t_last = time.monotonic()
        return w

    def close(self):
        for w in self.workers:
            try:
                os.close(w.wfd)
            except OSError:
                pass
        for w in self.workers:
            try:
                os.kill(w.pid, signal.SIGKILL)
            except ProcessLookupError:
                pass
            try:
                os.waitpid(w.pid, 0)
            except ChildProcessError:
                pass
            try:
                os.close(w.rfd)
            except OSError:
                pass

    def _send(self, w, jobs):
        data = (json.dumps(jobs) + "\n").encode()
        w.pending = list(jobs)
        w.current = None
        w.t_last = time.monotonic()
        # a writer thread is not needed: the child reads the whole line before working, pipes take 64 KiB at once and
        # we feed larger payloads in pieces while the child is blocked reading.
        off = 0
        while off < len(data):
            off += os.write(w.wfd, data[off:off + 32768])

    def run(self, jobs, on_result, limit_s=60, epoch=0):
        """Execute jobs (dicts with unique 'id').  Job k goes to worker k % n (deterministic sequences).  With
        epoch > 0 a worker is replaced by a fresh fork of the parent after every `epoch` jobs, which bounds the length
        of the sequence a violation may depend on."""
        jobs = list(jobs)
        per = [[] for _ in range(self.n)]
        for k, j in enumerate(jobs):
            per[k % self.n].append(j)
        queues = {}
        busy = {}
        for i, lst in enumerate(per):
            if not lst:
                continue
            chunks = [lst[k:k + epoch] for k in range(0, len(lst), epoch)] if epoch else [lst]
            queues[i] = chunks
            w = self.workers[i]
            self._send(w, chunks.pop(0))
            busy[w.rfd] = w
        while busy:
            ready, _, _ = select.select(list(busy), [], [], 1.0)
            now = time.monotonic()
            for fd in ready:
                w = busy[fd]
                chunk = os.read(fd, 1 << 16)
                if not chunk:
                    self._worker_died(w, busy, on_result, "crash")
                    continue
                w.t_last = now
                w.buf += chunk
                while b"\n" in w.buf:
                    line, w.buf = w.buf.split(b"\n", 1)
                    if not line.strip():
                        continue
                    o = json.loads(line)
                    if "_start" in o:
                        w.current = o["_start"]
                    elif o.get("_batch_done"):
                        del busy[w.rfd]
                        w.pending = []
                        w.current = None
                        rest = queues.get(w.wid)
                        if rest:
                            nw = self._replace(w)
                            self._send(nw, rest.pop(0))
                            busy[nw.rfd] = nw
                    else:
                        jid = o.get("_id")
                        job = None
                        for i, pj in enumerate(w.pending):
                            if pj.get("id") == jid:
                                job = w.pending.pop(i)
                                break
                        w.current = None
                        on_result(job, o)
            for fd, w in list(busy.items()):
                if now - w.t_last > limit_s:
                    self._worker_died(w, busy, on_result, "timeout")

    def _replace(self, w):
        try:
            os.close(w.wfd)
        except OSError:
            pass
        try:
            os.kill(w.pid, signal.SIGKILL)
        except ProcessLookupError:
            pass
        try:
            os.waitpid(w.pid, 0)
        except ChildProcessError:
            pass
        try:
            os.close(w.rfd)
        except OSError:
            pass
        i = self.workers.index(w)
        w.rfd = w.wfd = -1  # closed: the numbers may be reused by the new worker's pipes
        nw = self._spawn(w.wid)
        self.workers[i] = nw
        return nw

    def _worker_died(self, w, busy, on_result, why):
        try:
            os.kill(w.pid, signal.SIGKILL)
        except ProcessLookupError:
            pass
        try:
            _, st = os.waitpid(w.pid, 0)
        except ChildProcessError:
            st = 0
        for fd in (w.rfd, w.wfd):
            try:
                os.close(fd)
            except OSError:
                pass
        del busy[w.rfd]
        pending = w.pending
        culprit = None
        if pending:
            # the job that was running (started but not finished) is the culprit
            culprit = pending.pop(0) if w.current is not None or why == "timeout" else None
        if culprit is not None:
            on_result(culprit, {"status": why, "_id": culprit.get("id"), "_wid": w.wid,
                                "signal": (os.WTERMSIG(st) if os.WIFSIGNALED(st) else None)})
        i = self.workers.index(w)
        w.rfd = w.wfd = -1
        nw = self._spawn(w.wid)
        self.workers[i] = nw
        if pending:
            self._send(nw, pending)
            busy[nw.rfd] = nw
