"""Engine "hashcons" (C06): structurally equal expressions are one object; different ones never merge.

Which object a constructor returns depends on the content of weak tables (Base._hash_cache, _bvv_cache, ...), i.e. on what
was built before and is still referenced.  The harness owns every strong reference in *slots*; the history is a seeded
sequence of build / forget / gc / rebuild / re-annotate / pickle-round-trip events.  Oracle: (a) history independence:
whatever a spec builds must have exactly the deep structure it has when built alone at the start of the run;
(b) uniqueness: after every event, for every pair of live slots, `a is b` <=> deep structures equal; (c) an in-process
pickle round trip returns the same object.  Deep structure = op, args (recursively), length, annotation classes and
attribute values, compared field by field - never through __eq__/__hash__.
"""
from __future__ import annotations

import gc
import hashlib
import json
import pickle

from .rng import Rng, derive

name = "hashcons"

M61 = (1 << 61) - 1
# values whose Python hashes collide: hash(-1) == hash(-2), hash(k) == hash(k + 2**61 - 1)
COLLIDING = [[-1, -2], [5, 5 + M61], [0, M61], [7, 7 - M61], [1, 1]]
# values that are == (and hash alike) for Python but are different contents: an annotation class with an honest __eq__
# calls the annotations equal, the expressions that carry them are different expressions all the same
EQ_PAIRS = [[0, False], [1, True], [0, 0.0], [1, 1.0]]

_USER = {}


def user_classes(claripy):
    if _USER:
        return _USER

    class ContentAnn(claripy.Annotation):  # well-behaved: content hash + eq
        def __init__(self, v):
            self.v = v

        def __hash__(self):
            return hash(("ContentAnn", self.v))

        def __eq__(self, o):
            return type(o) is type(self) and o.v == self.v

    class ConstHashAnn(claripy.Annotation):  # legal but unfriendly: constant hash, honest eq
        def __init__(self, v):
            self.v = v

        def __hash__(self):
            return 42

        def __eq__(self, o):
            return type(o) is type(self) and o.v == self.v

    class TwinHashAnn(claripy.Annotation):  # equal hash to ContentAnn of the same value, different class
        def __init__(self, v):
            self.v = v

        def __hash__(self):
            return hash(("ContentAnn", self.v))

        def __eq__(self, o):
            return type(o) is type(self) and o.v == self.v

    class RelocAnn(claripy.Annotation):
        eliminatable = False
        relocatable = True

        def __init__(self, v):
            self.v = v

        def __hash__(self):
            return hash(("RelocAnn", self.v))

        def __eq__(self, o):
            return type(o) is type(self) and o.v == self.v

    for c in (ContentAnn, ConstHashAnn, TwinHashAnn, RelocAnn):
        c.__module__ = __name__
        c.__qualname__ = c.__name__
        globals()[c.__name__] = c  # picklable by reference
        _USER[c.__name__] = c
    return _USER


def make_ann(a, claripy):
    k = a[0]
    if k == "SI":
        return claripy.annotation.StridedIntervalAnnotation(a[1], a[2], a[3])
    if k == "REG":
        return claripy.annotation.RegionAnnotation(a[1], a[2])
    if k == "UNINIT":
        return claripy.annotation.UninitializedAnnotation()
    return user_classes(claripy)[k](a[1])


def build(sp, claripy):
    op = sp[0]
    B = lambda x: build(x, claripy)  # noqa: E731
    if op == "x":
        return claripy.BVS(sp[1], sp[2], explicit_name=True)
    if op == "b":
        return claripy.BoolS(sp[1], explicit_name=True)
    if op == "k":
        return claripy.BVV(sp[1], sp[2])
    if op == "kann":  # BVV constructed WITH annotations (kwargs path of the BVV cache)
        return claripy.BVV(sp[1], sp[2], annotations=tuple(make_ann(a, claripy) for a in sp[3]))
    if op == "fp":
        return claripy.FPS(sp[1], claripy.FSORT_FLOAT if sp[2] == "f" else claripy.FSORT_DOUBLE, explicit_name=True)
    if op == "fpv":
        return claripy.FPV(sp[1], claripy.FSORT_FLOAT if sp[2] == "f" else claripy.FSORT_DOUBLE)
    if op in ("fps_custom", "fpv_custom"):  # two different 16-bit sorts: same total width, different layout
        so = claripy.fp.FSort("half", 5, 11) if sp[2] == "half" else claripy.fp.FSort("bf16", 8, 8)
        return claripy.FPS(sp[1], so, explicit_name=True) if op == "fps_custom" else claripy.FPV(sp[1], so)
    if op == "str":
        return claripy.StringS(sp[1], explicit_name=True)
    if op == "strv":
        return claripy.StringV(sp[1])
    if op == "ann":
        return B(sp[2]).annotate(*[make_ann(a, claripy) for a in sp[1]])
    if op == "append_ann":
        return B(sp[2]).append_annotation(make_ann(sp[1], claripy))
    if op == "insert_ann":
        return B(sp[2]).insert_annotation(make_ann(sp[1], claripy))
    if op == "remove_ann":
        return B(sp[2]).remove_annotation(make_ann(sp[1], claripy))
    if op == "clear_ann":
        return B(sp[1]).clear_annotations()
    if op in ("add", "sub", "xor", "and", "or", "mul"):
        a, b = B(sp[1]), B(sp[2])
        return {"add": a + b, "sub": a - b, "xor": a ^ b, "and": a & b, "or": a | b, "mul": a * b}[op]
    if op == "not":
        return ~B(sp[1])
    if op == "extract":
        return claripy.Extract(sp[1], sp[2], B(sp[3]))
    if op == "concat":
        return claripy.Concat(B(sp[1]), B(sp[2]))
    if op == "zext":
        return claripy.ZeroExt(sp[1], B(sp[2]))
    if op == "ite":
        return claripy.If(B(sp[1]), B(sp[2]), B(sp[3]))
    if op == "eq":
        return B(sp[1]) == B(sp[2])
    if op == "ult":
        return claripy.ULT(B(sp[1]), B(sp[2]))
    if op == "and_":
        return claripy.And(B(sp[1]), B(sp[2]))
    if op == "or_":
        return claripy.Or(B(sp[1]), B(sp[2]))
    if op == "not_":
        return claripy.Not(B(sp[1]))
    if op == "fpadd":
        return claripy.fpAdd(claripy.fp.RM.default(), B(sp[1]), B(sp[2]))
    if op == "strcat":
        return claripy.StrConcat(B(sp[1]), B(sp[2]))
    raise ValueError(op)


def _attrs(x):
    """attributes of an annotation object, with or without a __dict__"""
    d = getattr(x, "__dict__", None)
    if d is not None:
        return d
    out = {}
    for c in type(x).__mro__:
        for n in getattr(c, "__slots__", ()) or ():
            if hasattr(x, n):
                out[n] = getattr(x, n)
    return out


def deep(a, claripy, memo=None):
    """deep structure, compared field by field (never via claripy's __eq__ / hash)"""
    Base = claripy.ast.Base
    if isinstance(a, Base):
        if memo is not None:
            k = id(a)
            if k in memo:
                return memo[k]
        # in order: the annotation tuple is ordered (append_annotation vs insert_annotation give different expressions)
        anns = [json.dumps([type(x).__name__, sorted((kk, repr(vv)) for kk, vv in _attrs(x).items())]) for x in a.annotations]
        r = json.dumps([type(a).__name__, a.op, getattr(a, "length", None), [deep(x, claripy, memo) for x in a.args], anns])
        if memo is not None:
            memo[id(a)] = r
        return r
    if isinstance(a, float):
        return json.dumps(["float", a.hex() if a == a else "nan"])
    return json.dumps([type(a).__name__, repr(a)])


# ------------------------------------------------------------------ generation
def gen_ann(r: Rng):
    k = r.below(100)
    pair = r.choice(COLLIDING)
    v = r.choice(pair)
    if k < 30:
        return ["SI", 1, v, 5] if r.chance(60) else ["SI", r.choice([1, 2]), 0, v]
    if k < 45:
        return ["REG", r.choice(["global", "stack"]), v]
    if k < 55:
        return ["UNINIT"]
    if k >= 55 and k < 92 and r.chance(25):
        v = r.choice(r.choice(EQ_PAIRS))
        return [r.choice(["ContentAnn", "ConstHashAnn", "TwinHashAnn"]), v]
    if k < 70:
        return ["ContentAnn", v]
    if k < 82:
        return ["ConstHashAnn", r.choice([1, 2, 3])]
    if k < 92:
        return ["TwinHashAnn", v]
    return ["RelocAnn", r.choice([1, 2])]


def gen_leaf(r: Rng):
    k = r.below(100)
    if k < 35:
        return ["x", r.choice(["x", "y"]), 8]
    if k < 60:
        return ["k", r.choice([0, 1, 5, 255]), 8]
    if k < 70:
        if r.chance(35):
            # two annotations whose Python hashes are EQUAL although they are different annotations, given together
            v = r.choice([1, 2, 3])
            pair = r.choice([[["ConstHashAnn", v], ["ConstHashAnn", v % 3 + 1]], [["ContentAnn", v], ["TwinHashAnn", v]],
                             [["SI", 1, -1, 5], ["SI", 1, -2, 5]], [["ContentAnn", 7], ["ContentAnn", 7 + M61]]])
            return ["kann", r.choice([0, 5]), 8, pair if r.chance(50) else pair[::-1]]
        return ["kann", r.choice([0, 5]), 8, [gen_ann(r) for _ in range(r.range(1, 2))]]
    if k < 76:
        return ["b", "p"]
    if k < 82:
        return ["fp", "f", r.choice(["f", "d"])]
    if k < 88:
        return ["fpv", r.choice([0.0, -0.0, 1.5, float("inf")]), r.choice(["f", "d"])]
    if k < 92:
        return ["str", "s"]
    if k < 95:
        return ["fps_custom", "h", r.choice(["half", "bf16"])] if r.chance(50) else ["fpv_custom", r.choice([0.0, 1.5]), r.choice(["half", "bf16"])]
    return ["strv", r.choice(["", "a", "ab"])]


def sort_of(sp):
    op = sp[0]
    if op in ("x", "k", "kann", "add", "sub", "xor", "and", "or", "mul", "not", "extract", "concat", "zext"):
        return "bv"
    if op in ("b", "eq", "ult", "and_", "or_", "not_"):
        return "bool"
    if op in ("fp", "fpv", "fpadd", "fps_custom", "fpv_custom"):
        return "fp"
    if op in ("str", "strv", "strcat"):
        return "str"
    if op in ("ann", "append_ann", "insert_ann", "remove_ann"):
        return sort_of(sp[2])
    if op == "clear_ann":
        return sort_of(sp[1])
    if op == "ite":
        return sort_of(sp[2])
    return "?"


def gen_bv8(r: Rng, depth):
    """an 8-bit BV expression"""
    if depth <= 0 or r.chance(35):
        while True:
            leaf = gen_leaf(r)
            if sort_of(leaf) == "bv":
                return maybe_ann(r, leaf)
    k = r.below(100)
    if k < 60:
        e = [r.choice(["add", "sub", "xor", "and", "or", "mul"]), gen_bv8(r, depth - 1), gen_bv8(r, depth - 1)]
    elif k < 70:
        e = ["not", gen_bv8(r, depth - 1)]
    elif k < 85:
        e = ["ite", gen_bool(r, depth - 1), gen_bv8(r, depth - 1), gen_bv8(r, depth - 1)]
    else:
        e = ["zext", 0, gen_bv8(r, depth - 1)] if r.chance(30) else ["extract", 7, 0, gen_bv8(r, depth - 1)]
    return maybe_ann(r, e)


def gen_bool(r: Rng, depth):
    if depth <= 0 or r.chance(30):
        return maybe_ann(r, ["b", "p"]) if r.chance(40) else maybe_ann(r, [r.choice(["eq", "ult"]), gen_bv8(r, 0), gen_bv8(r, 0)])
    k = r.below(100)
    if k < 40:
        return maybe_ann(r, [r.choice(["eq", "ult"]), gen_bv8(r, depth - 1), gen_bv8(r, depth - 1)])
    if k < 80:
        return maybe_ann(r, [r.choice(["and_", "or_"]), gen_bool(r, depth - 1), gen_bool(r, depth - 1)])
    return maybe_ann(r, ["not_", gen_bool(r, depth - 1)])


def maybe_ann(r: Rng, e):
    if r.chance(22):
        k = r.below(100)
        if k < 60:
            return ["ann", [gen_ann(r) for _ in range(r.range(1, 2))], e]
        if k < 75:
            return ["append_ann", gen_ann(r), e]
        if k < 85:
            return ["insert_ann", gen_ann(r), e]
        if k < 93:
            return ["remove_ann", gen_ann(r), e]
        return ["clear_ann", e]
    return e


def gen_spec(r: Rng):
    k = r.below(100)
    if k < 55:
        return gen_bv8(r, r.range(0, 3))
    if k < 75:
        return gen_bool(r, r.range(0, 2))
    if k < 85:
        leaf = gen_leaf(r)
        return maybe_ann(r, leaf)
    if k < 93:
        return maybe_ann(r, ["fpadd", ["fp", "f", "d"], ["fpv", r.choice([0.0, -0.0, 1.5]), "d"]])
    return maybe_ann(r, ["strcat", ["str", "s"], ["strv", r.choice(["a", ""])]])


def generate(prop, seed, idx, opts):
    r = Rng(derive(seed, prop, idx, "hashcons"))
    nslots = r.range(3, 14)
    pool = [gen_spec(r) for _ in range(r.range(3, 10))]
    # near-duplicates: same spec with one colliding annotation value swapped
    for sp in list(pool):
        if r.chance(40):
            s2 = json.loads(json.dumps(sp))
            if _swap_colliding(s2):
                pool.append(s2)
    ops = []
    for _ in range(r.range(6, 50)):
        k = r.below(100)
        s = r.below(nslots)
        if k < 50:
            ops.append({"op": "build", "slot": s, "spec": r.choice(pool) if r.chance(75) else gen_spec(r)})
        elif k < 64:
            ops.append({"op": "forget", "slot": s})
        elif k < 72:
            ops.append({"op": "gc"})
        elif k < 82:
            ops.append({"op": "pickle", "slot": s, "proto": r.choice([2, 4, 5])})
        elif k < 84:
            # an annotated node, then the same node re-annotated with an annotation that its class calls EQUAL to the one
            # it carries although the contents differ
            pair = r.choice(EQ_PAIRS)
            cls = r.choice(["ContentAnn", "TwinHashAnn", "ConstHashAnn"])
            i0 = r.below(2)
            leaf = gen_leaf(r) if r.chance(60) else gen_bv8(r, 1)
            ops.append({"op": "build", "slot": s, "spec": ["ann", [[cls, pair[i0]]], leaf]})
            ops.append({"op": "reannotate", "slot": s, "how": r.choice(["replace", "annotate_remove", "replace", "remove", "append"]),
                        "ann": [cls, pair[1 - i0]], "dst": r.below(nslots)})
        elif k < 90:
            ops.append({"op": "reannotate", "slot": s, "how": r.choice(["append", "insert", "remove", "clear", "annotate", "replace",
                                                                        "annotate_remove"]),
                        "ann": gen_ann(r), "dst": r.below(nslots)})
        elif k < 95:
            ops.append({"op": "downsize"})
        else:
            ops.append({"op": "forget_all"})
    return {"property": prop, "engine": name, "origin_seed": seed, "run_index": idx, "config": {"slots": nslots}, "ops": ops}


def _swap_colliding(sp):
    """in place: replace the first colliding annotation value by its partner"""
    if isinstance(sp, list):
        if sp and sp[0] in ("SI", "REG", "ContentAnn", "TwinHashAnn"):
            for i, v in enumerate(sp):
                if isinstance(v, int) and not isinstance(v, bool):
                    for pair in COLLIDING:
                        if v in pair and pair[0] != pair[1]:
                            sp[i] = pair[1 - pair.index(v)]
                            return True
        for x in sp:
            if _swap_colliding(x):
                return True
    return False


def warmup():
    import claripy

    user_classes(claripy)
    for i in range(5):
        execute(generate("C06", 99, i, {}))
    gc.collect()


# ------------------------------------------------------------------ execution
class Broken(Exception):
    def __init__(self, clause, detail):
        super().__init__(clause)
        self.clause = clause
        self.detail = detail


def execute(rec):
    import claripy

    user_classes(claripy)
    for b in (claripy.backends.z3, claripy.backends.concrete, claripy.backends.vsa):
        b.downsize()
    gc.collect()
    nslots = rec["config"]["slots"]
    slots = [None] * nslots
    specs = [None] * nslots
    trace = hashlib.sha256()
    stats = {"ops": 0, "builds": 0, "pairs_checked": 0, "identical_pairs": 0, "unbuildable": 0, "queries": 0,
             "self_unstable_specs": 0}
    out = {"status": "ok"}

    # (a) pristine structures: every distinct spec built alone, nothing else of this run alive
    pristine = {}
    for op in rec["ops"]:
        if op["op"] == "build":
            k = json.dumps(op["spec"])
            if k not in pristine:
                try:
                    a = build(op["spec"], claripy)
                    pristine[k] = deep(a, claripy)
                    # claripy's own rewriting of some annotated shapes depends on whether an earlier result is still
                    # alive (And(<true, relocatable annotation>, x) is folded the first time only): that is the
                    # rewriter's business (C01/C07), not hash-consing.  A spec that does not even reproduce itself
                    # while its first build is alive is not judged by oracle (a).
                    a2 = build(op["spec"], claripy)
                    if deep(a2, claripy) != pristine[k] and not rec["config"].get("strict"):
                        pristine[k] = False
                        stats["self_unstable_specs"] += 1
                    del a, a2
                except claripy.errors.ClaripyError:
                    pristine[k] = None
                gc.collect()

    def check_pairs(i):
        memo = {}
        live = [(j, s) for j, s in enumerate(slots) if s is not None]
        ds = [deep(s, claripy, memo) for _, s in live]
        for x in range(len(live)):
            for y in range(x + 1, len(live)):
                stats["pairs_checked"] += 1
                same_obj = live[x][1] is live[y][1]
                same_struct = ds[x] == ds[y]
                if same_obj:
                    stats["identical_pairs"] += 1
                if same_obj != same_struct:
                    raise Broken("duplicate-object" if same_struct else "conflated", {
                        "op_index": i, "slots": [live[x][0], live[y][0]], "specs": [specs[live[x][0]], specs[live[y][0]]],
                        "structure": ds[x][:300]})

    try:
        for i, op in enumerate(rec["ops"]):
            k = op["op"]
            stats["ops"] += 1
            ans = [k]
            if k == "build":
                key = json.dumps(op["spec"])
                if pristine.get(key) is None:
                    stats["unbuildable"] += 1
                    continue
                a = build(op["spec"], claripy)
                stats["builds"] += 1
                d = deep(a, claripy)
                if pristine[key] is not False and d != pristine[key]:
                    raise Broken("history-dependent-structure", {"op_index": i, "spec": op["spec"], "built": d[:400],
                                                                 "alone": pristine[key][:400]})
                if op["spec"][0] == "kann":
                    # the constructor's own contract: a constant built WITH annotations carries every one of them (equal
                    # annotations may be merged - equal for the annotations' __eq__, not merely for their hash)
                    given = [make_ann(x, claripy) for x in op["spec"][3]]
                    distinct = []
                    for g in given:
                        if not any(g == h for h in distinct):
                            distinct.append(g)
                    missing = [x for x, g in zip(op["spec"][3], given) if not any(g == h for h in a.annotations)]
                    if missing or len(a.annotations) != len(distinct):
                        raise Broken("constructor-dropped-annotation", {"op_index": i, "spec": op["spec"], "missing": missing,
                                                                        "have": len(a.annotations), "want": len(distinct)})
                slots[op["slot"]] = a
                specs[op["slot"]] = op["spec"]
                ans.append(hashlib.sha256(d.encode()).hexdigest()[:8])
            elif k == "forget":
                slots[op["slot"]] = None
                specs[op["slot"]] = None
            elif k == "forget_all":
                slots = [None] * nslots
                specs = [None] * nslots
            elif k == "gc":
                gc.collect()
            elif k == "downsize":
                for b in (claripy.backends.z3, claripy.backends.concrete, claripy.backends.vsa):
                    b.downsize()
            elif k == "pickle":
                a = slots[op["slot"]]
                if a is None:
                    continue
                try:
                    b2 = pickle.loads(pickle.dumps(a, op["proto"]))
                except Exception as e:  # noqa: BLE001
                    raise Broken("pickle-failed", {"op_index": i, "spec": specs[op["slot"]], "exc": type(e).__name__ + ": " + str(e)[:200]}) from None
                if b2 is not a:
                    raise Broken("unpickled-not-identical", {"op_index": i, "spec": specs[op["slot"]],
                                                             "same_structure": deep(b2, claripy) == deep(a, claripy)})
            elif k == "reannotate":
                a = slots[op["slot"]]
                if a is None:
                    continue
                ann = make_ann(op["ann"], claripy)
                how = op["how"]
                before = deep(a, claripy)
                try:
                    if how == "append":
                        n = a.append_annotation(ann)
                    elif how == "insert":
                        n = a.insert_annotation(ann)
                    elif how == "remove":
                        n = a.remove_annotation(ann)
                    elif how == "clear":
                        n = a.clear_annotations()
                    elif how == "replace":
                        n = a.replace_annotations((ann,))
                    elif how == "annotate_remove":
                        n = a.annotate(ann, remove_annotations=a.annotations)
                    else:
                        n = a.annotate(ann)
                except claripy.errors.ClaripyError:
                    continue
                if deep(a, claripy) != before:
                    raise Broken("annotation-change-mutated-original", {"op_index": i, "spec": specs[op["slot"]], "how": how})
                # the annotation API's own contract: the result is the same node with exactly this annotation tuple
                ad = lambda x: json.dumps([type(x).__name__, sorted((kk, repr(vv)) for kk, vv in _attrs(x).items())])  # noqa: E731
                have = [ad(x) for x in a.annotations]
                want = {"append": have + [ad(ann)], "annotate": have + [ad(ann)], "insert": [ad(ann)] + have, "clear": [],
                        "replace": [ad(ann)], "annotate_remove": [ad(ann)]}.get(how)
                if want is not None:
                    got = [ad(x) for x in n.annotations]
                    if got != want or n.op != a.op or n.args is not a.args and deep(n.clear_annotations(), claripy) != deep(a.clear_annotations(), claripy):
                        raise Broken("reannotation-result-differs", {"op_index": i, "spec": specs[op["slot"]], "how": how,
                                                                     "ann": op["ann"], "got": got, "want": want})
                slots[op["dst"]] = n
                specs[op["dst"]] = [how, op["ann"], specs[op["slot"]]]
            check_pairs(i)
            trace.update(json.dumps([i, ans]).encode())
    except Broken as b:
        d = dict(b.detail)
        d.update(op=rec["ops"][d["op_index"]]["op"], cls="ast")
        out = {"status": "violation", "violation": {"clause": b.clause, "detail": d}}
    slots = specs = None
    gc.collect()
    out["digest"] = trace.hexdigest()[:16]
    stats["queries"] = stats["pairs_checked"]
    out["stats"] = stats
    out["nontrivial"] = stats["builds"] >= 3 and stats["pairs_checked"] >= 3
    out["cov"] = {"runs_with_shared_objects": 1 if stats["identical_pairs"] else 0}
    return out


def signature(res):
    v = res.get("violation")
    if not v:
        return None
    d = v["detail"]
    return [v["clause"], d.get("op")]
