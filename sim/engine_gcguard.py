"""Engine "gcguard" (C19): garbage collection stays disabled exactly while Z3 calls are in progress.

Real code under test: claripy.backends.backend_z3._enter_z3 / _exit_z3 / condom (and the SIGINT handler nesting for
the actor that runs on the real main thread).  Owned by the simulator: the choice of which thread runs (baton scheduler,
pre-emption at every LINE - or, in the thorough tier, INSTRUCTION - event inside those functions), the lock
(_gc_lock -> SimLock) and the GC switch (module global `gc` -> model object whose flag is observable after every step).
"""
from __future__ import annotations

import gc as real_gc
import json

from .rng import Rng, derive
from .sched import Deadlock, Scheduler, SimLock

name = "gcguard"


class ModelGC:
    def __init__(self, enabled):
        self.flag = enabled
        self.calls = []

    def isenabled(self):
        return self.flag

    def enable(self):
        self.flag = True
        self.calls.append("enable")

    def disable(self):
        self.flag = False
        self.calls.append("disable")

    def collect(self, *a):
        return 0


def warmup():
    from . import engine_threads

    engine_threads.warmup()
    import claripy  # noqa: F401
    import claripy.backends.backend_z3  # noqa: F401

    real_gc.collect()


# ------------------------------------------------------------------ generation
def gen_program(r: Rng, depth, budget):
    """balanced nesting of raw enter/exit pairs and condom'd calls"""
    items = []
    n = r.range(1, 3)
    for _ in range(n):
        if budget[0] <= 0:
            break
        budget[0] -= 1
        k = r.below(100)
        if k < 35:
            sub = gen_program(r, depth - 1, budget) if depth > 1 and r.chance(50) else []
            items.append(["pair", sub])
        elif k < 85:
            items.append(["call", r.range(1, min(3, depth + 1)), False])
        else:
            items.append(["call", r.range(1, 2), True])
    return items


def generate(prop, seed, idx, opts):
    if opts.get("granularity") == "fullstack":
        # the guard inside the real stack: the C20 workload (threads running solver histories under the baton
        # scheduler) with the real gc switch observed at every Z3 check and at quiescence
        from . import engine_threads

        rec = engine_threads.generate(prop, seed, idx, opts)
        r = Rng(derive(seed, prop, idx, "gcguard-fullstack"))
        rec["engine"] = name
        rec["kind"] = "fullstack"
        rec["config"]["gc_initially_enabled"] = r.chance(65)
        return rec
    r = Rng(derive(seed, prop, idx, "gcguard"))
    nact = r.weighted([(1, 2), (2, 5), (3, 4)])
    progs = []
    for _ in range(nact):
        p = gen_program(r, 3, [r.range(1, 5)])
        progs.append(p or [["call", 1, False]])
    policy = r.weighted([("random", 6), ("pct", 3)])
    cfg = {"actors": nact, "gc_initially_enabled": r.chance(65), "policy": policy,
           "switch_pct": r.choice([10, 25, 40, 60]), "granularity": opts.get("granularity", "line"),
           "main_actor": r.chance(50), "sched_seed": r.next() & 0xFFFFFFFF}
    r2 = Rng(derive(seed, prop, idx, "gcguard-faults"))
    if nact == 1 and r2.chance(60):
        # the application switches the collector itself between two episodes of calls (only ever at global quiescence,
        # i.e. in single-actor programs): "what it was before the first of them started" is then the new state
        p = progs[0]
        for _ in range(r2.range(1, 2)):
            p.insert(r2.range(0, len(p)), ["toggle", r2.chance(50)])
    if cfg["main_actor"] and r2.chance(25):
        # fault: Ctrl-C arrives while the main thread waits for the guard's lock on its way INTO a call (lock acquisition is
        # where a blocked main thread really takes a KeyboardInterrupt)
        cfg["interrupt_enter_at"] = r2.range(1, 4)
    return {"property": prop, "engine": name, "origin_seed": seed, "run_index": idx, "config": cfg, "programs": progs}


# ------------------------------------------------------------------ execution
def execute(rec):
    if rec.get("kind") == "fullstack":
        from . import engine_threads

        return engine_threads.execute(rec, gc_monitor=True)
    import z3

    import claripy.backends.backend_z3 as bz

    cfg = rec["config"]
    sched = Scheduler(cfg["sched_seed"], policy=cfg["policy"], switch_pct=cfg.get("switch_pct", 30),
                      max_steps=20000)
    model = ModelGC(cfg["gc_initially_enabled"])
    initial = model.flag
    lock = SimLock(sched)
    errors = []
    state = {"in_progress": 0, "max_in_progress": 0, "inside_checks": 0}

    saved = (bz._gc_lock, bz.gc, bz._active_z3_calls, bz._gc_was_enabled, bz.log.error)
    bz._gc_lock = lock
    bz.gc = model
    bz._active_z3_calls = 0
    bz._gc_was_enabled = False
    bz.log.error = lambda *a, **k: errors.append(a[0] % a[1:] if len(a) > 1 else str(a[0]))

    class Broken(Exception):
        pass

    def invariant(tid, where):
        # (i) some call is in progress => GC disabled;  (ii) counter never negative, no underflow report
        if state["in_progress"] >= 1 and model.flag:
            raise Broken(json.dumps({"clause": "gc-enabled-while-call-in-progress", "in_progress": state["in_progress"],
                                     "at": [str(where[0]), where[1]], "tid": tid}))
        if bz._active_z3_calls < 0:
            raise Broken(json.dumps({"clause": "active-count-negative", "value": bz._active_z3_calls}))
        if errors:
            raise Broken(json.dumps({"clause": "underflow-reported", "log": errors[:2]}))

    sched.on_step = invariant
    fault = {"enter_acquires": 0, "fired": 0}
    enter_code = bz._enter_z3.__code__

    def on_acquire(tid):
        import sys

        if tid != 0 or not cfg.get("main_actor") or not cfg.get("interrupt_enter_at"):
            return
        if sys._getframe(2).f_code is not enter_code:
            return
        fault["enter_acquires"] += 1
        if fault["enter_acquires"] == cfg["interrupt_enter_at"]:
            fault["fired"] += 1
            raise KeyboardInterrupt("injected while waiting for _gc_lock in _enter_z3")

    lock.on_acquire = on_acquire

    def body_enter():
        state["in_progress"] += 1
        state["max_in_progress"] = max(state["max_in_progress"], state["in_progress"])

    def body_exit():
        state["in_progress"] -= 1

    def make_call(depth, raises):
        def inner():
            body_enter()
            try:
                invariant(None, ("inside-call", depth))
                state["inside_checks"] += 1
                if depth > 1:
                    make_call(depth - 1, raises)()
                elif raises:
                    raise z3.Z3Exception("injected")
            finally:
                body_exit()

        return bz.condom(inner)

    def run_items(items):
        nonlocal initial
        for it in items:
            if it[0] == "toggle":
                # only generated for single-actor programs and only at the top level: nothing is in progress
                if state["in_progress"] == 0:
                    (model.enable if it[1] else model.disable)()
                    initial = model.flag
                continue
            if it[0] == "pair":
                try:
                    bz._enter_z3()
                except KeyboardInterrupt:
                    if not fault["fired"]:
                        raise
                    continue  # the call never started: a correct caller does not pair it with an exit
                body_enter()
                try:
                    invariant(None, ("inside-pair", 0))
                    run_items(it[1])
                finally:
                    body_exit()
                    bz._exit_z3()
            else:
                f = make_call(it[1], it[2])
                try:
                    f()
                except bz.ClaripyZ3Error:
                    if not it[2]:
                        raise
                except KeyboardInterrupt:
                    if not fault["fired"]:
                        raise

    # code objects whose lines / instructions are pre-emption points
    probe = bz.condom(lambda: None)
    codes = [bz._enter_z3.__code__, bz._exit_z3.__code__, probe.__code__, bz.install_sigint_handler.__code__,
             bz.uninstall_sigint_handler.__code__]
    main_tid = 0 if cfg.get("main_actor") else None
    for tid, prog in enumerate(rec["programs"]):
        sched.add_thread(tid, (lambda p=prog: run_items(p)))
    sched.watch(codes, cfg.get("granularity", "line"))
    try:
        failure = sched.run(main_tid=main_tid)
    finally:
        sched.unwatch()
        bz._gc_lock, bz.gc, bz._active_z3_calls, bz._gc_was_enabled, bz.log.error = saved
    out = {"status": "ok"}
    vio = None
    if failure is not None:
        if isinstance(failure, Broken):
            vio = json.loads(str(failure))
        elif isinstance(failure, Deadlock):
            vio = {"clause": "deadlock", "detail": str(failure)}
        else:
            import traceback

            tb = "".join(traceback.format_exception(type(failure), failure, failure.__traceback__))[-1500:]
            if "sim/sched.py" in tb.splitlines()[-3] if len(tb.splitlines()) >= 3 else False:
                return {"status": "harness_error", "error": tb}
            vio = {"clause": "unexpected-exception", "exc": {"type": type(failure).__name__, "msg": str(failure)[:200]}, "tb": tb[-600:]}
    else:
        # (iii) quiescence: flag restored, counter back to zero
        if model.flag != initial:
            vio = {"clause": "gc-flag-not-restored", "initial": initial, "final": model.flag, "calls": model.calls[-6:]}
        elif state["in_progress"] != 0:
            return {"status": "harness_error", "error": "harness in_progress counter unbalanced"}
        elif errors:
            vio = {"clause": "underflow-reported", "log": errors[:2]}
    if vio is not None:
        clause = vio.pop("clause")
        vio.update(op="schedule", cls="backend_z3", steps=sched.steps, switches=sched.switches)
        out = {"status": "violation", "violation": {"clause": clause, "detail": vio}}
    out["digest"] = sched.digest()
    out["stats"] = {"steps": sched.steps, "switches": sched.switches, "lock_contended": lock.contended,
                    "max_in_progress": state["max_in_progress"], "gc_toggles": len(model.calls), "ops": sched.steps,
                    "queries": state["inside_checks"]}
    out["nontrivial"] = sched.switches >= 1 and len(rec["programs"]) >= 2
    out["fired"] = [[0, fault["enter_acquires"], "interrupt-at-lock", "enter"]] * fault["fired"]
    out["cov"] = {"interrupt_injected_runs": fault["fired"], "user_toggle_runs": 1 if any(i[0] == "toggle" for p in rec["programs"] for i in p) else 0,
                  "contended_runs": 1 if lock.contended else 0, "overlap_runs": 1 if state["max_in_progress"] >= 2 else 0,
                  "policy_" + cfg["policy"]: 1, "main_actor_runs": 1 if main_tid is not None else 0}
    out["switch_log"] = sched.switch_log[:60]
    return out


def signature(res):
    v = res.get("violation")
    if not v:
        return None
    if v["detail"].get("cls") != "backend_z3":  # full-stack phase: a solver-level failure (C20 territory) keeps its class
        from . import engine_threads

        return engine_threads.signature(res)
    return [v["clause"], "backend_z3", "schedule", None, None]


def shrink_ops(rec):
    """simpler candidates: fewer actors, fewer / shallower items; each tried with the original schedule seed and two more
    (removing an item shifts every later scheduling point)"""
    import copy

    if rec.get("kind") == "fullstack":
        from . import engine_threads

        yield from engine_threads.shrink_ops(rec)
        return

    def variants(r, tag):
        yield tag, r
        for alt in (1, 2):
            r2 = copy.deepcopy(r)
            r2["config"]["sched_seed"] = (rec["config"]["sched_seed"] * 31 + alt) & 0xFFFFFFFF
            yield f"{tag}/seed+{alt}", r2

    progs = rec["programs"]
    for i in range(len(progs)):
        if len(progs) > 1:
            r = copy.deepcopy(rec)
            del r["programs"][i]
            r["config"]["actors"] = len(r["programs"])
            yield from variants(r, f"drop-actor{i}")
        for j in range(len(progs[i])):
            if len(progs[i]) > 1:
                r = copy.deepcopy(rec)
                del r["programs"][i][j]
                yield from variants(r, f"drop-item{i}.{j}")
            it = progs[i][j]
            if it[0] == "call" and it[1] > 1:
                r = copy.deepcopy(rec)
                r["programs"][i][j][1] = it[1] - 1
                yield from variants(r, f"shallower{i}.{j}")
            if it[0] == "pair" and it[1]:
                r = copy.deepcopy(rec)
                r["programs"][i][j][1] = []
                yield from variants(r, f"empty-pair{i}.{j}")
