"""Engine: solver-history machine (serves C10-C18, C26).  generate() is pure; execute() runs in a forked child."""
from __future__ import annotations

import copy
import gc
import json
import os

from . import spec as S
from .gen import PROFILES, HistoryGen
from .machine import HarnessError, Machine, Violation, Z3Seam, _Excluded, install_serial_hash
from .rng import derive

name = "history"


def warmup():
    """Executed once in the group parent: import everything, touch every op kind once so that no lazy import
    happens inside a run, then leave claripy's caches cold."""
    import claripy

    if not os.path.realpath(claripy.__file__).startswith(os.path.realpath(os.environ.get("VERIF_REPO", "/repo")) + "/"):
        raise HarnessError(f"claripy imported from {claripy.__file__}, not from the repository under test")
    import z3  # noqa: F401

    S.ref_ctx()
    install_probes(claripy)
    for i in range(6):
        rec = generate("C11", 12345, i, {})
        rec["config"]["salt"] = 0
        try:
            m = Machine(rec, claripy, None)
            m.run()
        except Violation:
            pass
    for b in (claripy.backends.z3, claripy.backends.concrete, claripy.backends.vsa):
        b.downsize()
    gc.collect()


PROBES = {}


def install_probes(claripy):
    """Rare-condition probes (DESIGN 2.5): counting wrappers, installed once per process, never used for verdicts.
    A probe stuck at 0 in the evidence means the workload does not reach that branch."""
    import functools

    if PROBES.get("_installed"):
        return
    PROBES["_installed"] = True

    def count(cls, name, label, when=None):
        orig = getattr(cls, name)

        @functools.wraps(orig)
        def w(*a, **k):
            if when is None or when(*a, **k):
                PROBES[label] = PROBES.get(label, 0) + 1
            return orig(*a, **k)

        setattr(cls, name, w)

    fe = claripy.frontend
    count(fe.composite_frontend.CompositeFrontend, "_claim", "composite_cow_claim", lambda self, s: s not in self._owned_solvers)
    count(fe.composite_frontend.CompositeFrontend, "_reabsorb_solver", "composite_reabsorb")
    count(fe.composite_frontend.CompositeFrontend, "_split_child", "composite_split_child")
    count(fe.mixin.model_cache_mixin.ModelCacheMixin, "combine", "model_cache_combine")
    count(fe.mixin.model_cache_mixin.ModelCacheMixin, "update", "model_cache_update")
    count(fe.mixin.model_cache_mixin.ModelCacheMixin, "_trivial_model_optimization", "trivial_model_shortcut")
    count(fe.replacement_frontend.ReplacementFrontend, "add_replacement", "replacement_learnt")
    count(claripy.backends.backend_z3.BackendZ3, "clone_solver", "z3_solver_cloned")
    count(claripy.backends.backend_z3.SmartLRUCache, "popitem", "ast_lru_eviction")
    count(fe.mixin.sat_cache_mixin.SatCacheMixin, "unsat_core", "cached_pairwise_core_served",
          lambda self, *a, **k: self._cached_unsat_core is not None)


def probe_snapshot():
    return {k: v for k, v in PROBES.items() if not k.startswith("_")}


def generate(prop, seed, idx, opts):
    if opts.get("profile") == "C18expr":
        from . import engine_exprfresh

        return engine_exprfresh.generate(prop, seed, idx, opts)
    prof = PROFILES[opts.get("profile", prop)]
    sub = derive(seed, prop, idx)
    g = HistoryGen(sub, prof)
    rec = g.generate()
    rec.update(property=prop, engine=name, origin_seed=seed, run_index=idx, profile=opts.get("profile", prop))
    return rec


def setup_run(claripy, cfg, light=False):
    b = claripy.backends
    for x in (b.z3, b.concrete, b.vsa):
        x.downsize()
    try:
        del b.z3._tls.ast_cache
    except AttributeError:
        pass
    b.z3._ast_cache_size = cfg.get("lru", 10000)
    b.z3.reuse_z3_solver = bool(cfg.get("reuse", False))
    if getattr(b.z3._tls, "solver", None) is not None:
        b.z3._tls.solver = None
    if not light:
        gc.collect()
    install_serial_hash(claripy, cfg.get("salt", 0))


def alphabet_filter(claripy, m: Machine, specs):
    """Post-hoc alphabet filter (DESIGN 3.1): a violation only counts if every expression involved was built by
    claripy with the meaning the spec has (otherwise it is C01/C04 territory, not a solver defect)."""
    seen = set()
    bad = []
    for sp in specs:
        k = json.dumps(sp)
        if k in seen:
            continue
        seen.add(k)
        try:
            a = m.slots.get(k)
            if a is None:
                a = S.build_claripy(sp, m.variables, claripy)
        except Exception:  # noqa: BLE001
            bad.append([sp, "unbuildable"])
            continue
        ok = S.claripy_matches_spec(a, sp, m.variables, claripy)
        if ok is not True:
            bad.append([sp, "not-equivalent" if ok is False else "undecided"])
    return bad


def execute(rec):
    if rec.get("kind") == "exprfresh":
        from . import engine_exprfresh

        return engine_exprfresh.execute(rec)
    if rec.get("fault_enum"):
        return execute_fault_enum(rec)
    return execute_one(rec)


def execute_fault_enum(rec):
    """C17: run the history fault-free to learn how many solver checks the target operation makes, then once per
    (check position, kind, phase) with exactly that fault injected - every position, as the property quantifies."""
    import hashlib

    fe = rec["fault_enum"]
    base = {k: v for k, v in rec.items() if k != "fault_enum"}
    base["faults"] = []
    res = execute_one(base, want_checks=True)
    if res["status"] != "ok":
        res["record_override"] = base
        return res
    total = dict(res["stats"])
    fired_all = []
    digests = [res["digest"]]
    variants = 0
    positions = 0
    cap = fe.get("max_positions")
    for t in fe["targets"]:
        c = res["checks_per_op"].get(str(t), 0)
        js = list(range(1, c + 1))
        if cap and c > cap:
            # quick tier: first and last positions plus an even spread (the thorough tier enumerates all of them)
            head, tail = js[:cap // 3], js[-(cap // 3):]
            mid = js[cap // 3:-(cap // 3)]
            step = max(1, len(mid) // (cap - len(head) - len(tail)))
            js = sorted(set(head + tail + mid[::step][:cap - len(head) - len(tail)]))
        positions += len(js)
        total["fault_positions_skipped"] = total.get("fault_positions_skipped", 0) + (c - len(js))
        for j in js:
            for kind in fe["kinds"]:
                for phase in (fe.get("budgets", [1, 25, 400]) if kind == "rlimit_real" else fe["phases"]):
                    v = dict(base)
                    v["faults"] = [{"op": t, "nth": j, "kind": kind, "phase": phase}]
                    r = execute_one(v, light=True)
                    variants += 1
                    digests.append(r["digest"])
                    fired_all.extend(r.get("fired") or [])
                    for k, x in r["stats"].items():
                        total[k] = total.get(k, 0) + x
                    if r["status"] != "ok":
                        r["record_override"] = v
                        r["stats"] = total
                        r["fired"] = fired_all
                        r["variants"] = variants
                        return r
    out = dict(res)
    out.pop("checks_per_op", None)
    out["stats"] = total
    out["stats"]["fault_variants"] = variants
    out["stats"]["fault_positions"] = positions
    out["fired"] = fired_all
    out["digest"] = hashlib.sha256("".join(digests).encode()).hexdigest()[:16]
    out["nontrivial"] = variants > 0 and len(fired_all) > 0
    out["variants"] = variants
    return out


def execute_one(rec, want_checks=False, light=False):
    import claripy

    cfg = rec["config"]
    setup_run(claripy, cfg, light)
    seam = Z3Seam()
    seam.install()
    seam.rlimit = int(cfg.get("z3_rlimit", 0))
    m = Machine(rec, claripy, seam)
    out = {"status": "ok"}
    before = probe_snapshot()
    try:
        m.run()
    except _Excluded as ex:
        out = {"status": "excluded", "excluded": ex.res.get("excluded"), "violation": ex.res.get("violation")}
    except Violation as v:
        seam.plan = {}
        bad = alphabet_filter(claripy, m, v.detail.get("specs") or [])
        d = dict(v.detail)
        d.pop("specs", None)
        if bad:
            out = {"status": "excluded", "excluded": bad[:3], "violation": {"clause": v.clause, "detail": d}}
        else:
            out = {"status": "violation", "violation": {"clause": v.clause, "detail": d}}
    seam.uninstall()
    out["digest"] = m.digest()
    m.stats["checks"] = seam.total
    m.stats["faults_fired"] = len(seam.fired)
    out["stats"] = m.stats
    out["fired"] = seam.fired
    after = probe_snapshot()
    out["cov"] = {k: after[k] - before.get(k, 0) for k in after if after[k] - before.get(k, 0)}
    out["cov"]["answered_without_z3_check"] = m.stats.get("cache_answers", 0)
    out["nontrivial"] = m.stats["queries"] >= 2 and m.stats["adds"] >= 1
    out["handles"] = sorted({h.cls for h in m.handles})
    if rec.get("want_answers"):
        out["answers"] = m.answers
    if want_checks:
        out["checks_per_op"] = {str(k): v for k, v in m.checks_per_op.items()}
    return out


def signature(res):
    """violation class used by the minimiser and for grouping: no line numbers, no values"""
    v = res.get("violation")
    if not v:
        return None
    d = v["detail"]
    exc = d.get("exc") or {}
    return [v["clause"], d.get("cls"), d.get("op"), exc.get("type"), exc.get("site")]


# ------------------------------------------------------------------ shrinking
def _subexprs(sp):
    """strictly simpler replacements of the same sort (children of the same width are found by the caller)"""
    for a in sp[1:]:
        if isinstance(a, list):
            yield a


def shrink_ops(rec):
    """yield (description, candidate record) with one op argument simplified"""
    if rec.get("kind") == "exprfresh":
        from . import engine_exprfresh

        yield from engine_exprfresh.shrink_ops(rec)
        return
    ops = rec["ops"]
    variables = {v[0]: v[1] for v in rec["config"]["vars"]}

    def with_op(i, newop):
        r = copy.deepcopy(rec)
        r["ops"][i] = newop
        return r

    for i, op in enumerate(ops):
        if op.get("extra"):
            for j in range(len(op["extra"])):
                o = copy.deepcopy(op)
                del o["extra"][j]
                yield f"op{i}:drop-extra{j}", with_op(i, o)
        if op["op"] == "add" and len(op["cs"]) > 1:
            for j in range(len(op["cs"])):
                o = copy.deepcopy(op)
                del o["cs"][j]
                yield f"op{i}:drop-c{j}", with_op(i, o)
        if op["op"] == "batch_eval" and len(op["es"]) > 1:
            for j in range(len(op["es"])):
                o = copy.deepcopy(op)
                del o["es"][j]
                yield f"op{i}:drop-e{j}", with_op(i, o)
        if "n" in op and op["n"] > 1:
            for n2 in {1, 2, op["n"] - 1, op["n"] // 2} - {op["n"], 0}:
                o = dict(op)
                o["n"] = n2
                yield f"op{i}:n={n2}", with_op(i, o)
        for flag in ("signed", "as_list", "probe", "exact"):
            if op.get(flag) not in (None, False) and flag in op:
                o = dict(op)
                o.pop(flag)
                yield f"op{i}:-{flag}", with_op(i, o)
        # expression shrinking: replace a (sub)expression by one of its same-width children
        for field in ("e", "v"):
            sp = op.get(field)
            if isinstance(sp, list):
                for cand in _shrink_expr(sp, variables):
                    o = dict(op)
                    o[field] = cand
                    yield f"op{i}:{field}", with_op(i, o)
        for field in ("cs", "extra", "es"):
            lst = op.get(field)
            if lst:
                for j, sp in enumerate(lst):
                    for cand in _shrink_expr(sp, variables):
                        o = copy.deepcopy(op)
                        o[field][j] = cand
                        yield f"op{i}:{field}{j}", with_op(i, o)
    cfg = rec["config"]
    for key, simple in (("reuse", False), ("lru", 10000), ("salt", 0)):
        if cfg.get(key) != simple:
            r = copy.deepcopy(rec)
            r["config"][key] = simple
            yield f"cfg:{key}", r


def _shrink_expr(sp, variables, depth=0):
    try:
        w = S.width_of(sp, variables)
    except Exception:  # noqa: BLE001
        return
    # hoist a child of the same width
    for ch in _subexprs(sp):
        try:
            if S.width_of(ch, variables) == w:
                yield ch
        except Exception:  # noqa: BLE001
            pass
    if depth < 3:
        for i, a in enumerate(sp):
            if i > 0 and isinstance(a, list):
                for cand in _shrink_expr(a, variables, depth + 1):
                    c = list(sp)
                    c[i] = cand
                    yield c
