"""Engine "values" (C26): values extracted from models are values the expression actually takes.

Histories of the shape  pin -> query -> query a different expression over the same variables  on model-caching solvers,
over wide bit-vectors, floats and strings.  A value reaches the caller by two routes depending on history: extracted
from a Z3 model (_abstract_to_primitive), or recomputed later from a cached model by claripy's concrete backend
(ModelCache.eval_ast).  Oracle (Z3REF, DESIGN 3.3): every returned value is re-asserted, together with the user's
constraints, in a fresh solver of a z3 Context that claripy never sees; floats by bit identity, strings by exact code
points (literal built with Z3_mk_u32string, never through claripy's StringV).
"""
from __future__ import annotations

import ctypes
import gc
import hashlib
import json
import math
import struct

from . import spec as S
from .machine import HarnessError, Violation, Z3Seam, _claripy_frame, install_serial_hash
from .rng import Rng, derive

name = "values"

BV_WIDTHS = [1, 8, 24, 32, 64, 65, 72, 128, 130]
F32_BITS = [0x00000000, 0x80000000, 0x00000001, 0x807FFFFF, 0x7F800000, 0xFF800000, 0x7F7FFFFF, 0x3F800000, 0x3F800001,
            0x4B800000, 0x33800000, 0x00800000, 0xC0490FDB, 0x3DCCCCCD]
F64_BITS = [0x0, 0x8000000000000000, 0x1, 0x800FFFFFFFFFFFFF, 0x7FF0000000000000, 0xFFF0000000000000, 0x7FEFFFFFFFFFFFFF,
            0x3FF0000000000000, 0x3FF0000000000001, 0x4340000000000000, 0x3CA0000000000000, 0x0010000000000000,
            0x400921FB54442D18, 0x3FB999999999999A]
STR_POOL = [[], [97], [0, 122], [92], [92, 117, 123, 52, 56, 125], [10, 13, 9], [0x1F600], [0xE9, 0x4E2D], [34, 39, 92, 92],
            [97, 0, 98, 0], [0x7F, 0x80, 0xFF], [65, 66, 67, 68], [92, 120, 52, 49], [0x10FFFF % 0x30000], [32, 32]]


# ------------------------------------------------------------------ spec builders
def sort_of(sp, cfg):
    op = sp[0]
    if op in ("bv", "bvc"):
        return ("bv", sp[2])
    if op in ("fp", "fpc"):
        return ("fp", sp[2])
    if op in ("str", "strc", "strcat"):
        return ("str", None)
    if op in ("add", "sub", "xor", "and", "or", "mul", "not", "reverse", "shl", "lshr", "ashr", "neg", "sdiv", "srem", "udiv",
              "urem", "rol", "ror"):
        return sort_of(sp[1], cfg)
    if op == "sext":
        return ("bv", sp[1] + sort_of(sp[2], cfg)[1])
    if op == "extract":
        return ("bv", sp[1] - sp[2] + 1)
    if op == "concat":
        return ("bv", sort_of(sp[1], cfg)[1] + sort_of(sp[2], cfg)[1])
    if op == "zext":
        return ("bv", sp[1] + sort_of(sp[2], cfg)[1])
    if op == "ite":
        return sort_of(sp[2], cfg)
    if op in ("fpadd", "fpmul", "fpsub", "fpneg", "fpabs", "fpdiv", "fpsqrt"):
        return sort_of(sp[-1], cfg)
    if op == "fp2bv":
        return ("bv", 32 if sort_of(sp[1], cfg)[1] == "f" else 64)
    if op == "bv2fp":
        return ("fp", sp[2])
    if op == "strlen":
        return ("bv", 64)
    return ("bool", None)


def build_claripy(sp, cl):
    op = sp[0]
    B = lambda x: build_claripy(x, cl)  # noqa: E731
    if op == "bv":
        return cl.BVS(sp[1], sp[2], explicit_name=True)
    if op == "bvc":
        return cl.BVV(sp[1], sp[2])
    if op == "fp":
        return cl.FPS(sp[1], cl.FSORT_FLOAT if sp[2] == "f" else cl.FSORT_DOUBLE, explicit_name=True)
    if op == "fpc":
        w = 32 if sp[2] == "f" else 64
        return cl.fpToFP(cl.BVV(sp[1], w), cl.FSORT_FLOAT if sp[2] == "f" else cl.FSORT_DOUBLE)
    if op == "bv2fp":
        return cl.fpToFP(B(sp[1]), cl.FSORT_FLOAT if sp[2] == "f" else cl.FSORT_DOUBLE)
    if op == "str":
        return cl.StringS(sp[1], explicit_name=True)
    if op == "strc":
        return cl.StringV("".join(chr(c) for c in sp[1]))
    if op == "strcat":
        return cl.StrConcat(B(sp[1]), B(sp[2]))
    if op == "strlen":
        return cl.StrLen(B(sp[1]))
    if op in ("add", "sub", "xor", "and", "or", "mul"):
        a, b = B(sp[1]), B(sp[2])
        return {"add": a + b, "sub": a - b, "xor": a ^ b, "and": a & b, "or": a | b, "mul": a * b}[op]
    if op == "not":
        return ~B(sp[1])
    if op == "neg":
        return -B(sp[1])
    if op == "reverse":
        return cl.Reverse(B(sp[1]))
    if op in ("shl", "lshr", "ashr", "sdiv", "srem", "udiv", "urem", "rol", "ror"):
        a, b = B(sp[1]), B(sp[2])
        return {"shl": lambda: a << b, "lshr": lambda: cl.LShR(a, b), "ashr": lambda: a >> b, "sdiv": lambda: a.SDiv(b),
                "srem": lambda: a.SMod(b), "udiv": lambda: a // b, "urem": lambda: a % b, "rol": lambda: cl.RotateLeft(a, b),
                "ror": lambda: cl.RotateRight(a, b)}[op]()
    if op == "sext":
        return cl.SignExt(sp[1], B(sp[2]))
    if op == "extract":
        return cl.Extract(sp[1], sp[2], B(sp[3]))
    if op == "concat":
        return cl.Concat(B(sp[1]), B(sp[2]))
    if op == "zext":
        return cl.ZeroExt(sp[1], B(sp[2]))
    if op == "ite":
        return cl.If(B(sp[1]), B(sp[2]), B(sp[3]))
    rm = cl.fp.RM.default()
    if op == "fpadd":
        return cl.fpAdd(rm, B(sp[1]), B(sp[2]))
    if op == "fpsub":
        return cl.fpSub(rm, B(sp[1]), B(sp[2]))
    if op == "fpmul":
        return cl.fpMul(rm, B(sp[1]), B(sp[2]))
    if op == "fpdiv":
        return cl.fpDiv(rm, B(sp[1]), B(sp[2]))
    if op == "fpsqrt":
        return cl.fpSqrt(rm, B(sp[1]))
    if op == "fpneg":
        return cl.fpNeg(B(sp[1]))
    if op == "fpabs":
        return cl.fpAbs(B(sp[1]))
    if op == "fp2bv":
        return cl.fpToIEEEBV(B(sp[1]))
    if op == "eq":
        return B(sp[1]) == B(sp[2])
    if op == "ne":
        return B(sp[1]) != B(sp[2])
    if op in ("ult", "ule", "ugt", "uge", "slt", "sle", "sgt", "sge"):
        return getattr(cl, op.upper())(B(sp[1]), B(sp[2]))
    if op == "fplt":
        return cl.fpLT(B(sp[1]), B(sp[2]))
    if op == "fpleq":
        return cl.fpLEQ(B(sp[1]), B(sp[2]))
    if op == "fpeq":
        return cl.fpEQ(B(sp[1]), B(sp[2]))
    if op == "fpisnan":
        return cl.fpIsNaN(B(sp[1]))
    if op == "fpisinf":
        return cl.fpIsInf(B(sp[1]))
    if op == "strprefix":
        return cl.StrPrefixOf(B(sp[1]), B(sp[2]))
    if op == "strcontains":
        return cl.StrContains(B(sp[1]), B(sp[2]))
    if op == "and_":
        return cl.And(*[B(x) for x in sp[1:]])
    if op == "or_":
        return cl.Or(*[B(x) for x in sp[1:]])
    if op == "not_":
        return cl.Not(B(sp[1]))
    raise HarnessError(f"values: unknown op {op}")


def str_literal(cps, ctx):
    import z3

    arr = (ctypes.c_uint * len(cps))(*cps)
    return z3.SeqRef(z3.Z3_mk_u32string(ctx.ref(), len(cps), arr), ctx)


def build_ref(sp, ctx):
    import z3

    op = sp[0]
    B = lambda x: build_ref(x, ctx)  # noqa: E731
    fs = lambda k: z3.Float32(ctx) if k == "f" else z3.Float64(ctx)  # noqa: E731
    if op == "bv":
        return z3.BitVec(sp[1], sp[2], ctx)
    if op == "bvc":
        return z3.BitVecVal(sp[1], sp[2], ctx)
    if op == "fp":
        return z3.FP(sp[1], fs(sp[2]), ctx)
    if op == "fpc":
        return z3.fpBVToFP(z3.BitVecVal(sp[1], 32 if sp[2] == "f" else 64, ctx), fs(sp[2]), ctx)
    if op == "bv2fp":
        return z3.fpBVToFP(B(sp[1]), fs(sp[2]), ctx)
    if op == "str":
        return z3.String(sp[1], ctx)
    if op == "strc":
        return str_literal(sp[1], ctx)
    if op == "strcat":
        return z3.Concat(B(sp[1]), B(sp[2]))
    if op == "strlen":
        return z3.Int2BV(z3.Length(B(sp[1])), 64)
    if op in ("add", "sub", "xor", "and", "or", "mul"):
        a, b = B(sp[1]), B(sp[2])
        return {"add": a + b, "sub": a - b, "xor": a ^ b, "and": a & b, "or": a | b, "mul": a * b}[op]
    if op == "not":
        return ~B(sp[1])
    if op == "neg":
        return -B(sp[1])
    if op == "reverse":
        a = B(sp[1])
        n = a.size() // 8
        return a if n == 1 else z3.Concat(*[z3.Extract(8 * i + 7, 8 * i, a) for i in range(n)])
    if op in ("shl", "lshr", "ashr", "sdiv", "srem", "udiv", "urem", "rol", "ror"):
        a, b = B(sp[1]), B(sp[2])
        return {"shl": lambda: a << b, "lshr": lambda: z3.LShR(a, b), "ashr": lambda: a >> b, "sdiv": lambda: a / b,
                "srem": lambda: z3.SRem(a, b), "udiv": lambda: z3.UDiv(a, b), "urem": lambda: z3.URem(a, b),
                "rol": lambda: z3.RotateLeft(a, b), "ror": lambda: z3.RotateRight(a, b)}[op]()
    if op == "sext":
        return z3.SignExt(sp[1], B(sp[2]))
    if op == "extract":
        return z3.Extract(sp[1], sp[2], B(sp[3]))
    if op == "concat":
        return z3.Concat(B(sp[1]), B(sp[2]))
    if op == "zext":
        return z3.ZeroExt(sp[1], B(sp[2]))
    if op == "ite":
        return z3.If(B(sp[1]), B(sp[2]), B(sp[3]), ctx)
    rm = z3.RNE(ctx)
    if op == "fpadd":
        return z3.fpAdd(rm, B(sp[1]), B(sp[2]), ctx)
    if op == "fpsub":
        return z3.fpSub(rm, B(sp[1]), B(sp[2]), ctx)
    if op == "fpmul":
        return z3.fpMul(rm, B(sp[1]), B(sp[2]), ctx)
    if op == "fpdiv":
        return z3.fpDiv(rm, B(sp[1]), B(sp[2]), ctx)
    if op == "fpsqrt":
        return z3.fpSqrt(rm, B(sp[1]), ctx)
    if op == "fpneg":
        return z3.fpNeg(B(sp[1]), ctx)
    if op == "fpabs":
        return z3.fpAbs(B(sp[1]), ctx)
    if op == "fp2bv":
        return z3.fpToIEEEBV(B(sp[1]), ctx)
    if op in ("eq", "ne"):
        a, b = B(sp[1]), B(sp[2])
        if z3.is_fp(a):
            # claripy maps == / != on floats to fpEQ / fpNEQ (IEEE comparison: +0 == -0, NaN != NaN)
            return z3.fpEQ(a, b, ctx) if op == "eq" else z3.fpNEQ(a, b, ctx)
        return a == b if op == "eq" else a != b
    if op in ("ult", "ule", "ugt", "uge"):
        return getattr(z3, op.upper())(B(sp[1]), B(sp[2]))
    if op in ("slt", "sle", "sgt", "sge"):
        a, b = B(sp[1]), B(sp[2])
        return {"slt": a < b, "sle": a <= b, "sgt": a > b, "sge": a >= b}[op]
    if op == "fplt":
        return z3.fpLT(B(sp[1]), B(sp[2]), ctx)
    if op == "fpleq":
        return z3.fpLEQ(B(sp[1]), B(sp[2]), ctx)
    if op == "fpeq":
        return z3.fpEQ(B(sp[1]), B(sp[2]), ctx)
    if op == "fpisnan":
        return z3.fpIsNaN(B(sp[1]), ctx)
    if op == "fpisinf":
        return z3.fpIsInf(B(sp[1]), ctx)
    if op == "strprefix":
        return z3.PrefixOf(B(sp[1]), B(sp[2]))
    if op == "strcontains":
        return z3.Contains(B(sp[1]), B(sp[2]))
    if op == "and_":
        return z3.And(*[B(x) for x in sp[1:]])
    if op == "or_":
        return z3.Or(*[B(x) for x in sp[1:]])
    if op == "not_":
        return z3.Not(B(sp[1]))
    raise HarnessError(f"values: unknown op {op}")


# ------------------------------------------------------------------ generation
class Gen:
    def __init__(self, seed, opts):
        self.r = Rng(derive(seed, "values"))
        r = self.r
        self.kind = r.weighted([("bv", 4), ("fp", 4), ("str", 4), ("mixed", 1)])
        self.vars = []
        if self.kind in ("bv", "mixed"):
            for i in range(r.range(1, 3)):
                self.vars.append(["bv", f"v{i}", r.choice(BV_WIDTHS)])
        if self.kind in ("fp", "mixed"):
            for i in range(r.range(1, 2)):
                self.vars.append(["fp", f"f{i}", r.choice(["f", "d"])])
        if self.kind == "str":
            for i in range(r.range(1, 2)):
                self.vars.append(["str", f"s{i}"])
        self.ops = []

    def bvconst(self, w):
        r = self.r
        m = (1 << w) - 1
        return ["bvc", r.choice([0, 1, m, 1 << (w - 1), (1 << (w - 1)) - 1, r.next() & m, (r.next() << 64 | r.next()) & m]), w]

    def fpbits(self, k):
        r = self.r
        pool = F32_BITS if k == "f" else F64_BITS
        if r.chance(80):
            return r.choice(pool)
        return r.next() & ((1 << (32 if k == "f" else 64)) - 1)

    def pin(self, v):
        """a constraint that pins variable v to a boundary value (possibly through an expression)"""
        r = self.r
        if v[0] == "bv":
            w = v[2]
            c = self.bvconst(w)
            k = r.below(100)
            if k < 55:
                return ["eq", v, c]
            if k < 75:
                return ["eq", ["xor", v, self.bvconst(w)], c]
            if k < 90:
                return ["eq", ["add", v, self.bvconst(w)], c]
            return ["and_", ["uge", v, c], ["ule", v, c]]
        if v[0] == "fp":
            k = v[2]
            bits = self.fpbits(k)
            w = 32 if k == "f" else 64
            is_nan = (bits >> (23 if k == "f" else 52)) & (0xFF if k == "f" else 0x7FF) == (0xFF if k == "f" else 0x7FF) and \
                bits & ((1 << (23 if k == "f" else 52)) - 1)
            kk = r.below(100)
            if is_nan or kk < 8:
                return ["fpisnan", v]
            if kk < 70:
                return ["eq", ["fp2bv", v], ["bvc", bits, w]]
            if kk < 85:
                return ["eq", v, ["fpc", bits, k]]
            return ["and_", ["fpleq", v, ["fpc", bits, k]], ["fpleq", ["fpc", bits, k], v]]
        cps = r.choice(STR_POOL)
        kk = r.below(100)
        if kk < 60:
            return ["eq", v, ["strc", cps]]
        if kk < 80:
            return ["and_", ["strprefix", ["strc", cps], v], ["eq", ["strlen", v], ["bvc", len(cps), 64]]]
        return ["eq", ["strcat", v, ["strc", [33]]], ["strc", cps + [33]]]

    def query(self):
        r = self.r
        v = r.choice(self.vars)
        k = r.below(100)
        if v[0] == "bv":
            w = v[2]
            if k < 40:
                return v
            if k < 60:
                return ["add", v, self.bvconst(w)]
            if k < 75:
                return ["xor", v, self.bvconst(w)]
            if k < 85 and w > 1:
                hi = r.range(0, w - 1)
                return ["extract", hi, r.range(0, hi), v]
            if k < 89:
                return ["concat", v, self.bvconst(r.choice([1, 8, 64]))]
            if k < 92:
                return ["zext", r.choice([1, 7, 64]), v]
            # operations that are re-evaluated by claripy's concrete backend when the answer comes from a cached model
            k2 = r.below(100)
            if k2 < 25 and w % 8 == 0:
                return ["reverse", v]
            if k2 < 45:
                return [r.choice(["shl", "lshr", "ashr", "rol", "ror"]), v, ["bvc", r.choice([0, 1, 7, w - 1, w // 2]) % (1 << min(w, 8)) if w > 1 else 0, w]]
            if k2 < 55:
                return ["sext", r.choice([1, 8, 63]), v]
            if k2 < 65:
                return r.choice([["not", v], ["neg", v]])
            if k2 < 80:
                d = self.bvconst(w)
                if d[1] == 0:
                    d = ["bvc", 1, w]
                return [r.choice(["sdiv", "srem", "udiv", "urem"]), v, d]
            return ["mul", v, self.bvconst(w)]
        if v[0] == "fp":
            kk = v[2]
            if k < 45:
                return v
            if k < 60:
                return ["fp2bv", v]
            if k < 72:
                return ["fpneg", v]
            if k < 82:
                return ["fpabs", v]
            if k < 86:
                return ["fpadd", v, ["fpc", self.fpbits(kk), kk]]
            if k < 89:
                return ["fpmul", v, ["fpc", self.fpbits(kk), kk]]
            k2 = r.below(100)
            c = ["fpc", self.fpbits(kk), kk]
            if k2 < 30:
                return ["fpdiv", c, v]   # the variable (often pinned to a signed zero) divides
            if k2 < 55:
                return ["fpdiv", v, c]
            if k2 < 75:
                return ["fpsub", v, c] if r.chance(50) else ["fpsub", c, v]
            return ["fpsqrt", v]
        if k < 50:
            return v
        if k < 75:
            return ["strcat", v, ["strc", r.choice(STR_POOL)]]
        if k < 90:
            return ["strcat", ["strc", r.choice(STR_POOL)], v]
        return ["strlen", v]

    def generate(self):
        r = self.r
        if self.kind == "str":
            # the model-caching solvers too: what they re-evaluate on a cached model goes through the concrete string backend
            cls = r.weighted([("SolverStrings", 5), ("Solver", 3), ("SolverComposite", 1)])
        else:
            cls = r.weighted([("Solver", 5), ("SolverComposite", 3), ("SolverCacheless", 1)])
        self.ops.append({"op": "new", "cls": cls})
        for v in self.vars:
            if r.chance(85):
                self.ops.append({"op": "add", "c": self.pin(v)})
        for _ in range(r.range(2, 7)):
            k = r.below(100)
            e = self.query()
            so = sort_of(e, None)
            if k < 55 or so[0] != "bv":
                self.ops.append({"op": "eval", "e": e, "n": r.choice([1, 1, 2, 3])})
            elif k < 70:
                self.ops.append({"op": "batch_eval", "es": [e, self.query()], "n": r.choice([1, 2])})
            elif k < 85:
                self.ops.append({"op": "min", "e": e, "signed": r.chance(40)})
            else:
                self.ops.append({"op": "max", "e": e, "signed": r.chance(40)})
            if r.chance(12):
                self.ops.append({"op": r.choice(["gc", "backend_downsize", "branch"])})
            if r.chance(10):
                self.ops.append({"op": "add", "c": self.pin(r.choice(self.vars))})
        return {"config": {"kind": self.kind, "vars": self.vars, "lru": r.choice([4, 64, 10000]), "salt": r.next() & 0xFFFF},
                "ops": self.ops}


def generate(prop, seed, idx, opts):
    rec = Gen(derive(seed, prop, idx), opts).generate()
    rec.update(property=prop, engine=name, origin_seed=seed, run_index=idx)
    return rec


def warmup():
    import claripy

    S.ref_ctx()
    for i in range(8):
        try:
            execute(generate("C26", 4242, i, {}))
        except Exception:  # noqa: BLE001
            pass
    for b in (claripy.backends.z3, claripy.backends.concrete, claripy.backends.vsa):
        b.downsize()
    gc.collect()


# ------------------------------------------------------------------ execution
def value_constraint(e_ref, so, v, ctx):
    """reference-context constraint 'e takes exactly the value v' or a string describing why v cannot be a value"""
    import z3

    if so[0] == "bv":
        if isinstance(v, bool) or not isinstance(v, int):
            return f"not an int: {v!r}"
        w = so[1]
        if not (-(1 << (w - 1)) <= v < (1 << w)):
            return f"out of range for {w} bits: {v}"
        return e_ref == z3.BitVecVal(v % (1 << w), w, ctx)
    if so[0] == "fp":
        if not isinstance(v, float):
            return f"not a float: {v!r}"
        if math.isnan(v):
            return z3.fpIsNaN(e_ref, ctx)
        if so[1] == "f":
            try:
                b = struct.pack(">f", v)
            except OverflowError:
                return f"not representable in single precision: {v!r}"
            if struct.unpack(">f", b)[0] != v:
                return f"not representable in single precision: {v!r}"
            return z3.fpToIEEEBV(e_ref, ctx) == z3.BitVecVal(int.from_bytes(b, "big"), 32, ctx)
        return z3.fpToIEEEBV(e_ref, ctx) == z3.BitVecVal(int.from_bytes(struct.pack(">d", v), "big"), 64, ctx)
    if so[0] == "str":
        if not isinstance(v, str):
            return f"not a str: {v!r}"
        return e_ref == str_literal([ord(c) for c in v], ctx)
    if so[0] == "bool":
        return e_ref == z3.BoolVal(bool(v), ctx)
    return f"unknown sort {so}"


def execute(rec):
    import claripy
    import z3

    from .engine_history import setup_run

    cfg = rec["config"]
    setup_run(claripy, {"lru": cfg.get("lru", 10000), "reuse": False, "salt": cfg.get("salt", 0)})
    seam = Z3Seam()
    seam.install()
    if cfg.get("kind") == "str":
        # Z3's sequence solver can run for minutes: every check of a string history runs under a resource budget (a
        # deterministic give-up; claripy reports it as an error, and a query that raises has no value to judge)
        seam.rlimit = 4000000
    ctx = S.ref_ctx()
    trace = hashlib.sha256()
    stats = {"ops": 0, "values_checked": 0, "noverdict": 0, "unbuildable": 0, "cache_served": 0, "queries": 0}
    solvers = []
    refs = []  # list of reference constraint lists, one per solver
    slots = {}
    out = {"status": "ok"}

    def ast(sp):
        k = json.dumps(sp)
        if k not in slots:
            slots[k] = build_claripy(sp, claripy)
        return slots[k]

    def check_value(i, op, e, v, cons, route):
        so = sort_of(e, None)
        if e[0] == "fp2bv" and isinstance(v, int) and not isinstance(v, bool):
            # the bit pattern of a NaN is unspecified in SMT-LIB (exempt): a NaN pattern only has to mean "is NaN"
            k32 = so[1] == 32
            ebits, mbits = (0xFF, 23) if k32 else (0x7FF, 52)
            if (v >> mbits) & ebits == ebits and v & ((1 << mbits) - 1):
                e, so, v = e[1], sort_of(e[1], None), float("nan")
        c = value_constraint(build_ref(e, ctx), so, v, ctx)
        if e[0] == "fp2bv" and not isinstance(c, str):
            # ... and whatever bits come back for a NaN operand are as good as any other
            c = z3.Or(c, z3.fpIsNaN(build_ref(e[1], ctx), ctx))
        stats["values_checked"] += 1
        if isinstance(c, str):
            raise Violation("value-not-of-the-sort", {"op_index": i, "op": op["op"], "e": e, "value": repr(v), "why": c,
                                                      "cls": type(solvers[-1]).__name__, "route": route})
        s = z3.Solver(ctx=ctx)
        s.set("timeout", 10000)
        s.add(*cons)
        s.add(c)
        r = s.check()
        if r == z3.unknown:
            stats["noverdict"] += 1
            return
        if r == z3.unsat:
            # only a violation if the constraints themselves are satisfiable (else the answer is vacuous)
            s2 = z3.Solver(ctx=ctx)
            s2.set("timeout", 10000)
            s2.add(*cons)
            if s2.check() != z3.sat:
                return
            raise Violation("value-not-a-model-value", {"op_index": i, "op": op["op"], "e": e, "sort": list(so),
                                                         "value": repr(v), "cls": type(solvers[-1]).__name__, "route": route,
                                                         "value_codepoints": [ord(ch) for ch in v] if isinstance(v, str) else None})

    try:
        for i, op in enumerate(rec["ops"]):
            k = op["op"]
            stats["ops"] += 1
            if k == "new":
                # a finite solver timeout keeps pathological string instances from stalling a run; a real timeout only
                # ever turns a query into a (counted) non-answer
                if op["cls"] == "SolverComposite":
                    solvers.append(claripy.SolverComposite(template_solver=claripy.solvers.SolverCompositeChild(timeout=8000)))
                else:
                    solvers.append(getattr(claripy, op["cls"])(timeout=8000))
                refs.append([])
                ans = ["new"]
            elif k == "branch":
                solvers.append(solvers[-1].branch())
                refs.append(list(refs[-1]))
                ans = ["branch"]
            elif k == "gc":
                gc.collect()
                ans = ["gc"]
            elif k == "backend_downsize":
                claripy.backends.z3.downsize()
                ans = ["ds"]
            elif k == "add":
                try:
                    a = ast(op["c"])
                except claripy.errors.ClaripyError:
                    stats["unbuildable"] += 1
                    continue
                solvers[-1].add([a])
                refs[-1].append(build_ref(op["c"], ctx))
                ans = ["add"]
            else:
                s = solvers[-1]
                es = op["es"] if k == "batch_eval" else [op["e"]]
                try:
                    asts_ = [ast(e) for e in es]
                except claripy.errors.ClaripyError:
                    stats["unbuildable"] += 1
                    continue
                checks0 = seam.total
                stats["queries"] += 1
                try:
                    if k == "eval":
                        res = [tuple([v]) for v in s.eval(asts_[0], op["n"])]
                    elif k == "batch_eval":
                        res = [tuple(t) for t in s.batch_eval(asts_, op["n"])]
                    elif k == "min":
                        res = [(s.min(asts_[0], signed=op.get("signed", False)),)]
                    else:
                        res = [(s.max(asts_[0], signed=op.get("signed", False)),)]
                except claripy.errors.UnsatError:
                    ans = ["unsat"]
                    trace.update(json.dumps([i, k, ans]).encode())
                    continue
                except Exception as ex:  # noqa: BLE001
                    # C26 speaks about the values that ARE returned; a query that raises returns none (such failures belong
                    # to C09/C11: e.g. simplify() cannot abstract fpIsNaN).  Counted, not judged.
                    stats["raised"] = stats.get("raised", 0) + 1
                    ans = ["raised", type(ex).__name__, _claripy_frame(ex.__traceback__)]
                    trace.update(json.dumps([i, k, ans]).encode())
                    continue
                route = "cache" if seam.total == checks0 else "z3"
                if route == "cache":
                    stats["cache_served"] += 1
                for t in res:
                    for e, v in zip(es, t):
                        check_value(i, op, e, v, refs[-1], route)
                ans = ["vals", [[repr(v) for v in t] for t in res]]
            trace.update(json.dumps([i, k, ans]).encode())
    except Violation as v:
        seam.uninstall()
        bad = alphabet_filter(claripy, rec, v.detail.get("op_index", 0), ctx)
        if bad:
            out = {"status": "excluded", "excluded": bad[:3], "violation": {"clause": v.clause, "detail": v.detail}}
        else:
            out = {"status": "violation", "violation": {"clause": v.clause, "detail": v.detail}}
    seam.uninstall()
    out["digest"] = trace.hexdigest()[:16]
    stats["checks"] = seam.total
    out["stats"] = stats
    out["nontrivial"] = stats["values_checked"] >= 2
    out["handles"] = sorted({type(s).__name__ for s in solvers})
    out["cov"] = {"kind_" + cfg["kind"]: 1, "values_from_cache": stats["cache_served"]}
    return out


def alphabet_filter(claripy, rec, upto, ctx):
    """A violation only counts if every expression involved reaches Z3 with the meaning its spec has; otherwise the
    defect is in how claripy builds/translates the expression (C01/C02/C03 territory: e.g. StringV("\\u{48}") reaches
    Z3 as "H"), not in value extraction."""
    import z3

    bad = []
    specs = []
    for op in rec["ops"][:upto + 1]:
        if op["op"] == "add":
            specs.append(op["c"])
        elif op["op"] in ("eval", "min", "max"):
            specs.append(op["e"])
        elif op["op"] == "batch_eval":
            specs.extend(op["es"])
    seen = set()
    for sp in specs:
        k = json.dumps(sp)
        if k in seen:
            continue
        seen.add(k)
        try:
            mine = claripy.backends.z3.convert(build_claripy(sp, claripy))
            if isinstance(mine, bool):
                mine = z3.BoolVal(mine, ctx)
            else:
                mine = mine.translate(ctx)
            ref = build_ref(sp, ctx)
            s = z3.Solver(ctx=ctx)
            s.set("timeout", 10000)
            if z3.is_fp(ref):
                s.add(z3.fpToIEEEBV(mine, ctx) != z3.fpToIEEEBV(ref, ctx), z3.Not(z3.And(z3.fpIsNaN(mine, ctx), z3.fpIsNaN(ref, ctx))))
            else:
                s.add(mine != ref)
            r = s.check()
        except Exception as ex:  # noqa: BLE001
            bad.append([sp, "untranslatable: " + type(ex).__name__])
            continue
        if r != z3.unsat:
            bad.append([sp, "not-equivalent" if r == z3.sat else "undecided"])
    return bad


def signature(res):
    v = res.get("violation")
    if not v:
        return None
    d = v["detail"]
    exc = d.get("exc") or {}
    so = d.get("sort") or [None]
    return [v["clause"], d.get("cls"), d.get("op"), so[0] if so else None, exc.get("type"), exc.get("site")]
