"""Batch orchestration: runs a property's simulated batch, minimises and classifies violations, writes evidence."""
from __future__ import annotations

import json
import os
import sys
import time

from . import known
from .runner import REPO, VERIF, GroupFailed, engine_mod, read_group, repo_tree_digest, spawn_group

HASHSEEDS = [0, 1, 7, 1234]

# per property: engine, run counts, per-run wall limit
_HIST_NOTE = ("trusted: the 150-line Python evaluator of the spec language (differentially self-checked against Z3 at "
              "start-up) and, for the post-hoc alphabet filter only, claripy's AST->Z3 translation; Z3's determinism; "
              "bit-vector widths <= 8 (<= 12 bits of variables per run); sampling, not proof")
_HIST_RULE = ("one case = one seeded operation history (configuration + explicit op list) executed against real claripy + "
              "Z3 with the reference-model oracle after every operation; distinct = distinct digest of the executed "
              "(op, answer) trace; non-trivial = at least one add and at least two checked solver queries")


def _hist(quick, thorough, what, profile=None, **kw):
    d = {"engine": "history", "quick": quick, "thorough": thorough, "limit_s": 300, "rule": _HIST_RULE + "; " + what,
         "level_text": "seeded exploration of operation histories with an exact reference-model oracle checked after "
                       "every operation; " + what + "; violations are minimised and replayed in a pristine process "
                       "before being reported",
         "level_note": _HIST_NOTE, "opts": {"profile": profile} if profile else {}}
    d.update(kw)
    return d


PROPS = {
    "C10": _hist(3000, 60000, "histories interleave solver-relative is_true/is_false on several frontends with "
                 "module-level/method truth checks on the same expression objects, cache clears and evictions; a True "
                 "claim must hold on all models (solver) or all assignments (module level); a quarter of the runs put the same "
                 "questions to the approximate frontends (SolverHybrid exact=False / approximate_first, SolverVSA, the "
                 "hybrid's internal SolverReplacement(SolverVSA)) and their branches", design_ref="DESIGN.md 5 C10",
                 phases=[{"profile": "C10", "share": 0.75}, {"profile": "C10approx", "share": 0.25}]),
    "C11": _hist(4000, 150000, "frontends Solver and SolverCacheless; ops add/sat/eval/batch_eval/min/max/solution/"
                 "is_true/simplify/downsize/branch plus weak-cache and LRU evictions, solver reuse on/off; 85 % of the runs "
                 "use 2-8 bit variables with the enumeration reference, 15 % use 16-130 bit variables with an independent-Z3 "
                 "reference (no mul/div there), 8 % are string histories on SolverStrings / SolverCacheless (string variables "
                 "with finite domains asserted on every new solver, so the enumeration reference stays exact; concat, replace, "
                 "substr, contains, prefix, suffix, equality, If)",
                 design_ref="DESIGN.md 5 C11", phases=[{"profile": "C11", "share": 0.78}, {"profile": "C11wide", "share": 0.14},
                                                     {"profile": "C11str", "share": 0.08}]),
    "C12": _hist(3000, 100000, "SolverComposite with variable shapes whose constraints connect and disconnect child "
                 "solvers; branch (copy-on-write), simplify, split, combine, merge; 10 % of the runs with 16-130 bit variables "
                 "and an independent-Z3 reference", design_ref="DESIGN.md 5 C12",
                 phases=[{"profile": "C12", "share": 0.9}, {"profile": "C12wide", "share": 0.1}]),
    "C14": _hist(3000, 80000, "trees of branched solvers of every exact frontend class, strictly interleaved ops, and "
                 "probe sweeps over the untouched handles after every mutating op; 10 % of the runs with 16-130 bit variables "
                 "and an independent-Z3 reference", design_ref="DESIGN.md 5 C14",
                 phases=[{"profile": "C14", "share": 0.84}, {"profile": "C14wide", "share": 0.1}, {"profile": "C14str", "share": 0.06}]),
    "C13": _hist(3000, 80000, "exact phase: SolverReplacement (default settings) and SolverHybrid (exact=None/True) against "
                 "the exact oracle, with histories biased to constraints that create replacements, contradicting/refining "
                 "adds, downsize, branch and pickling; approximate phase: SolverHybrid(exact=False / approximate_first), "
                 "SolverVSA and the hybrid's internal SolverReplacement(SolverVSA) against the containment oracle",
                 design_ref="DESIGN.md 5 C13",
                 phases=[{"profile": "C13", "share": 0.6}, {"profile": "C13approx", "share": 0.4}]),
    "C15": _hist(2500, 50000, "solvers built by random histories are branched, extended, then merged (flag conditions or "
                 "random conditions, with and without a true common ancestor), combined and split; the result becomes a "
                 "handle with the model set the specification prescribes (computed by enumeration) and the history "
                 "continues on it; split parts are probed assignment by assignment", design_ref="DESIGN.md 5 C15"),
    "C16": _hist(2500, 50000, "tracked Solver/SolverComposite/SolverHybrid driven to UNSAT through many add orders, "
                 "unsat_core() at random points: element types, membership in the tracked set, unsatisfiability of the "
                 "core (each element evaluated on all assignments)", design_ref="DESIGN.md 5 C16"),
    "C17": _hist(500, 15000, "fault enumeration: after a seeded fault-free prefix, the target operation is executed once per "
                 "(solver-check position, fault kind, early/late) with exactly that fault injected through the "
                 "z3.Solver.check seam - every check position of the operation - and the history continues fault-free on "
                 "the same solver and on branches taken before and after the fault; the faulted op must raise a claripy "
                 "error, every later answer is checked exactly; a second phase injects random multi-fault plans across "
                 "whole histories; non-trivial = at least one injected fault actually fired",
                 design_ref="DESIGN.md 5 C17", level="fault_enumeration",
                 phases=[{"profile": "C17", "share": 0.69}, {"profile": "C17multi", "share": 0.25}, {"profile": "C17str", "share": 0.06}],
                 phases_thorough=[{"profile": "C17all", "share": 0.69}, {"profile": "C17multi", "share": 0.25},
                                  {"profile": "C17str", "share": 0.06}], limit_s=900),
    "C18": _hist(2500, 60000, "histories on every frontend class with restarts as the crash model: in-process pickle round "
                 "trips that replace the solver or create a twin driven alongside it, expression round trips "
                 "(loads(dumps(e)) is e), and fresh-interpreter restarts (only the pickles survive; new process, other "
                 "PYTHONHASHSEED) after which the history continues against the same reference; expression phase: pools "
                 "of BV/Bool/FP/String expressions with built-in and user annotations are pickled, every reference is "
                 "dropped (same process after GC, or a fresh interpreter with another PYTHONHASHSEED in which some of the "
                 "expressions are already alive), and the unpickled expressions must have the recorded deep structure, "
                 "be identical objects exactly when structurally equal, evaluate to the same values, and come back as "
                 "the original objects when pickled again and loaded in the first process",
                 design_ref="DESIGN.md 5 C18",
                 phases=[{"profile": "C18", "share": 0.62}, {"profile": "C18approx", "share": 0.2}, {"profile": "C18fresh", "share": 0.1},
                         {"profile": "C18expr", "share": 0.04}, {"profile": "C18str", "share": 0.04}]),
    "C26": {"engine": "values", "quick": 2000, "thorough": 60000, "limit_s": 300,
            "rule": "one case = one seeded history 'pin -> query -> query other expressions over the same variables' on "
                    "Solver / SolverComposite / SolverCacheless / SolverStrings over wide bit-vectors (1..130 bits), "
                    "floats (boundary values of both sorts) and strings (NUL, backslash, escape look-alikes, non-BMP); "
                    "every returned value is re-asserted with the user's constraints in an independent Z3 context; "
                    "distinct = distinct digest of the executed (op, answer) trace; non-trivial = at least two returned "
                    "values were checked",
            "level_text": "seeded exploration of value-extraction histories in which a value is first produced from a Z3 "
                          "model and later re-produced from claripy's model cache by its concrete backend; oracle: an "
                          "independent Z3 query per returned value (bit identity for floats, exact code points for strings)",
            "level_note": "trusted: Z3 (reference context) and the two 150-line spec builders; samples the pure extraction "
                          "function only at the boundary constants of its alphabet; reference 'unknown' = no verdict",
            "design_ref": "DESIGN.md 5 C26"},
    "C06": {"engine": "hashcons", "quick": 20000, "thorough": 200000, "limit_s": 200,
            "rule": "one case = one seeded history of build / forget / gc / rebuild / re-annotate / pickle-round-trip / "
                    "backend-downsize events over <= 14 slots (the only strong references), specs over BV/Bool/FP/String "
                    "trees with annotation lists drawn from StridedIntervalAnnotation / RegionAnnotation with colliding "
                    "Python hashes (-1/-2, k and k+2^61-1), UninitializedAnnotation and user annotation classes (content "
                    "hash, constant hash, equal-hash-other-class, relocatable), BVV with and without annotation kwargs; "
                    "distinct = digest of the executed event/structure trace; non-trivial = at least 3 builds and 3 "
                    "pairs of live expressions compared",
            "level_text": "seeded exploration of construction / GC / pickling histories with two oracles after every event: "
                          "what a spec builds has the deep structure it has when built alone (history independence), and "
                          "for every pair of live expressions identity <=> deep structural equality (compared field by "
                          "field, never through __eq__/__hash__)",
            "level_note": "real: Base.__new__/make_like/_calc_hash/_bvv_cache/annotation API/pickle/CPython refcount+gc; "
                          "the harness owns all strong references; trees of depth <= 4",
            "design_ref": "DESIGN.md 5 C06",
            "technique": "deterministic simulation: seeded build/drop/GC/pickle event histories over harness-owned "
                         "references with structural-identity invariants after every event"},
    "C19": {"engine": "gcguard", "quick": 40000, "thorough": 1500000, "limit_s": 200,
            "rule": "one case = one seeded schedule of 1-3 actors (real threads under a baton scheduler; one of them may be "
                    "the real main thread) each running a balanced program of nested _enter_z3/_exit_z3 pairs and "
                    "condom'd calls (depth <= 3, some raising Z3Exception), GC initially enabled or disabled; a scheduling "
                    "decision after every LINE event (thorough: also INSTRUCTION events) inside _enter_z3/_exit_z3/"
                    "z3_condom/install/uninstall_sigint_handler; distinct = distinct digest of the (actor, code location) "
                    "sequence; non-trivial = at least 2 actors and at least one context switch; full-stack phase (0.5% of the "
                    "cases): the C20 workload (2..8 threads running solver histories under the baton scheduler) with the "
                    "REAL gc switch, initially on or off: at every scheduling step and every Z3 check, guard counter >= 1 "
                    "implies gc off, counter never negative; at quiescence the switch is what it was and the counter 0; a "
                    "full-stack run pre-empts at LINE granularity for its first 2 000 000 LINE events and at lock "
                    "contention / thread exit after that (count-based, part of the digest)",
            "level_text": "seeded exploration of thread interleavings of the real GC-guard code at line (and bytecode) "
                          "granularity with the invariants checked after every scheduling step: a call in progress implies "
                          "GC disabled, the counter never goes negative, at quiescence the GC flag is what it was, no "
                          "deadlock; small configurations saturate but exhaustiveness is not claimed",
            "level_note": "stubbed: _gc_lock (SimLock owned by the scheduler), the gc module flag (model object), log.error; "
                          "real: _enter_z3, _exit_z3, condom, SIGINT handler install/uninstall on the real main thread",
            "design_ref": "DESIGN.md 5 C19",
            "phases": [{"opts": {"granularity": "line"}, "share": 0.795}, {"opts": {"granularity": "instruction"}, "share": 0.2},
                       {"opts": {"granularity": "fullstack"}, "share": 0.005}],
            "technique": "deterministic simulation: baton-passing thread scheduler with sys.monitoring LINE/INSTRUCTION "
                         "pre-emption points and a scheduler-owned lock, invariants after every step"},
    "C20": {"engine": "threads", "quick": 500, "thorough": 60000, "limit_s": 400,
            "rule": "one case = 2..8 real threads, each running its own seeded solver history (own solver objects, Solver/"
                    "SolverCacheless/SolverComposite/SolverHybrid/SolverReplacement) over a shared pool of expression "
                    "objects, under one seeded baton schedule (pre-emption at LINE events in claripy code with run-length "
                    "budgets, at _gc_lock contention, at thread start/exit; some runs put one history on the real main "
                    "thread); distinct = digest of the schedule's (thread, code location) sequence plus every thread's "
                    "(op, answer) trace; non-trivial = at least 2 context switches and 2 checked queries",
            "level_text": "seeded exploration of thread interleavings of the full claripy + Z3 stack: every answer of every "
                          "thread is checked against that thread's own reference model (so every determined answer is "
                          "the answer the history gives alone), no exception the single-thread machine would not accept, "
                          "and a confinement monitor at the Z3 check seam requires the solver and all assumptions to "
                          "belong to the calling thread's Z3 context",
            "level_note": "a thread inside a Z3 C call holds the baton, so two Z3 calls never overlap in real time: data "
                          "races inside libz3 are outside the simulator; _gc_lock is a scheduler-owned SimLock; the gc "
                          "module is real; under-determined eval results are judged by validity, not by equality",
            "design_ref": "DESIGN.md 5 C20",
            "technique": "deterministic simulation: baton-passing thread scheduler (sys.monitoring LINE pre-emption in "
                         "claripy code) over real threads running solver histories with per-thread reference oracles"},
}
for _p in PROPS.values():
    _p.setdefault("design_ref", "DESIGN.md 5")


def default_seed(tier):
    return 20260921 if tier == "quick" else 20260922


def run_batch(prop, tier, seed, runs, opts=None, workers_total=16, groups=None, keep_every=None, limit_s=None,
              progress=True):
    P = PROPS[prop]
    eng = P["engine"]
    opts = dict(P.get("opts", {}), **(opts or {}))
    groups = groups or (2 if runs < 20000 else 4)
    groups = min(groups, len(HASHSEEDS))
    per = max(1, workers_total // groups)
    if keep_every is None:
        keep_every = max(1, runs // 12)
    procs = []
    for g in range(groups):
        idxs = list(range(g, runs, groups))
        req = {"mode": "batch", "engine": eng, "prop": prop, "seed": seed, "opts": opts, "indices": idxs,
               "workers": per, "limit_s": limit_s or P.get("limit_s", 60), "keep_every": keep_every}
        procs.append((HASHSEEDS[g], spawn_group(req, HASHSEEDS[g])))
    agg = {"runs": 0, "ok": 0, "violation": 0, "excluded": 0, "harness_error": 0, "timeout": 0, "crash": 0,
           "digests": set(), "nontrivial_digests": set(), "stats": {}, "violations": [], "samples": [], "errors": [],
           "excluded_samples": [], "fault_kinds": {}, "handles": {}, "cov": {}}
    # interleave reading: simple sequential read per group is fine (pipes buffer; groups run concurrently) but a slow
    # reader could block a group on a full pipe, so read round-robin with threads
    import threading

    lock = threading.Lock()
    failures = []

    def consume(hs, p):
        try:
            for res in read_group(p):
                with lock:
                    absorb(agg, res, hs)
        except GroupFailed as e:
            failures.append(str(e))

    ths = [threading.Thread(target=consume, args=(hs, p)) for hs, p in procs]
    for t in ths:
        t.start()
    for t in ths:
        t.join()
    agg["group_failures"] = failures
    return agg


def absorb(agg, res, hashseed):
    agg["runs"] += 1
    st = res.get("status", "harness_error")
    agg[st] = agg.get(st, 0) + 1
    d = res.get("digest")
    if d:
        agg["digests"].add(d)
        if res.get("nontrivial"):
            agg["nontrivial_digests"].add(d)
    for k, v in (res.get("stats") or {}).items():
        if isinstance(v, (int, float)):
            agg["stats"][k] = agg["stats"].get(k, 0) + v
    for k, v in (res.get("cov") or {}).items():
        if isinstance(v, (int, float)):
            agg["cov"][k] = agg["cov"].get(k, 0) + v
    for f in res.get("fired") or []:
        key = f"{f[2]}/{f[3]}"
        agg["fault_kinds"][key] = agg["fault_kinds"].get(key, 0) + 1
    for hcls in res.get("handles") or []:
        agg["handles"][hcls] = agg["handles"].get(hcls, 0) + 1
    if st == "violation":
        if len(agg["violations"]) < 400:
            agg["violations"].append(res)
    elif st == "excluded":
        if len(agg["excluded_samples"]) < 5:
            agg["excluded_samples"].append({"excluded": res.get("excluded"), "clause": res["violation"]["clause"]})
    elif st in ("harness_error", "timeout", "crash"):
        if st == "crash":
            agg.setdefault("crashes", []).append({"idx": res.get("_id", res.get("idx")), "signal": res.get("signal"),
                                                   "hashseed": hashseed})
        if len(agg["errors"]) < 20:
            agg["errors"].append({k: res.get(k, res.get("_id") if k == "idx" else None) for k in ("status", "idx", "error", "signal", "wait_status")})
    elif "record" in res and len(agg["samples"]) < 6:
        rec = res["record"]
        sample = {"run_index": res.get("idx"), "config": rec["config"], "digest": d}
        if "ops" in rec:
            sample["ops"] = rec["ops"][:25]
        for k in ("programs", "faults", "fault_enum", "threads"):
            if k in rec:
                sample[k] = rec[k]
        if "switch_log" in res:
            sample["switch_log"] = res["switch_log"][:30]
        agg["samples"].append(sample)


def merge_agg(a, b):
    for k in ("runs", "ok", "violation", "excluded", "harness_error", "timeout", "crash"):
        a[k] = a.get(k, 0) + b.get(k, 0)
    a["digests"] |= b["digests"]
    a["nontrivial_digests"] |= b["nontrivial_digests"]
    for key in ("stats", "fault_kinds", "handles", "cov"):
        for k, v in b[key].items():
            a[key][k] = a[key].get(k, 0) + v
    for key in ("violations", "samples", "errors", "excluded_samples", "group_failures"):
        a[key] = a[key] + b[key]
    return a


def triage_remote(eng_name, prop, seed, opts, res, sig, hashseed, budget_s=90):
    req = {"mode": "triage", "engine": eng_name, "record": res["record"], "signature": sig, "workers": 16, "limit_s": 60,
           "budget_s": budget_s, "prefix": res.get("prefix") or [], "prop": prop, "seed": seed, "opts": opts or {}}
    p = spawn_group(req, hashseed)
    out = list(read_group(p))
    return out[0]


def exec_remote(eng_name, recs, hashseed):
    """execute a sequence of records in one fresh pristine process; -> result of the last"""
    req = {"mode": "exec_seq", "engine": eng_name, "records": recs, "limit_s": 120}
    p = spawn_group(req, hashseed)
    return list(read_group(p))[0]


def write_replay(prop, recs, res, tag):
    os.makedirs(os.path.join(VERIF, "replays"), exist_ok=True)
    path = os.path.join(VERIF, "replays", f"{prop}-{tag}.json")
    eng = engine_mod(recs[-1]["engine"])
    sig = ["process-crashed"] if res.get("status") == "crash" else eng.signature(res)
    out = {"property": prop, "engine": recs[-1]["engine"], "records": recs,
           "expect": {"signature": sig, "violation": res.get("violation")},
           "repo_tree_digest": repo_tree_digest()}
    with open(path, "w") as f:
        json.dump(out, f, indent=1, sort_keys=True)
    return path


def handle_violations(prop, seed, opts, agg, max_groups=8, budget_s=60):
    """group by signature, minimise representatives, classify against known findings, confirm by fresh replay.
    -> (known_lines, violation_lines)"""
    eng_name = PROPS[prop]["engine"]
    eng = engine_mod(eng_name)
    by_sig = {}
    for res in agg["violations"]:
        by_sig.setdefault(json.dumps(eng.signature(res)), []).append(res)
    known_lines, vio_lines = [], []
    kf = known.load()
    seen_known = set()
    n_groups = 0
    t_start = time.monotonic()
    for sigs, lst in sorted(by_sig.items(), key=lambda kv: -len(kv[1])):
        confirmed = sum(1 for v in vio_lines if v[0] == "VIOLATION")
        if confirmed >= 3 or (confirmed >= 1 and time.monotonic() - t_start > 240):
            # one confirmed, minimised, replayable violation already fails the check; do not spend the budget on
            # minimising every other symptom of (most likely) the same defect
            vio_lines.append(("NOTE", f"{len(by_sig) - n_groups} further violation signature(s) not triaged "
                                      f"(see violating_runs_by_signature in the evidence file)"))
            break
        sig = json.loads(sigs)
        n_groups += 1
        lst.sort(key=lambda r: len(r["record"].get("ops", ())))
        reps = lst[:2] if n_groups <= max_groups else lst[:1]
        for res in reps:
            rec = res["record"]
            hs = rec["config"].get("hashseed", 0)
            try:
                m = triage_remote(eng_name, prop, seed, dict(opts or {}, **res.get("phase_opts", {})), res, sig, hs, budget_s)
            except GroupFailed as e:
                vio_lines.append(("HARNESS-ERROR", f"triage failed: {e}"))
                continue
            mrecs, mres = m["records"], m["result"]
            if mres is None:
                vio_lines.append(("NOT-REPRODUCED", f"signature={sig} run={rec.get('run_index')} {m.get('why')}"))
                continue
            k = known.match(kf, prop, mrecs[-1], mres)
            if k is not None:
                if k["id"] not in seen_known:
                    seen_known.add(k["id"])
                    known_lines.append(f"KNOWN-FINDING: property={prop} {k['id']}: {k['what']}")
                continue
            path = write_replay(prop, mrecs, mres, f"{rec.get('origin_seed')}-{rec.get('run_index')}")
            vio_lines.append(("VIOLATION", path, sig, mres["violation"], len(mrecs)))
    return known_lines, vio_lines


def exec_many_remote(eng_name, seqs, hashseed):
    req = {"mode": "exec_seqs", "engine": eng_name, "sequences": seqs, "workers": 8, "limit_s": 120}
    return list(read_group(spawn_group(req, hashseed)))


def regression_replays(prop):
    """-> list of ("KNOWN", line) | ("VIOLATION", (path, sig, violation, n)) | ("NOTE", text)"""
    data = known.load_all()
    jobs = []  # (kind, entry, path, replay)
    for e in data.get("open", []):
        if prop in e.get("properties", []):
            for rp in e.get("example_replays", []):
                jobs.append(("open", e, rp))
    for e in data.get("fixed", []):
        if prop in e.get("properties", []) and e.get("replay"):
            jobs.append(("fixed", e, e["replay"]))
    out = []
    if not jobs:
        return out
    by_eng = {}
    for kind, e, rp in jobs:
        with open(os.path.join(VERIF, rp)) as f:
            r = json.load(f)
        hs = r["records"][-1]["config"].get("hashseed", 0)
        by_eng.setdefault((r.get("engine", "history"), hs), []).append((kind, e, rp, r))
    for (eng_name, hs), lst in by_eng.items():
        eng = engine_mod(eng_name)
        try:
            results = exec_many_remote(eng_name, [r["records"] for _, _, _, r in lst], hs)
        except GroupFailed as ex:
            out.append(("HARNESS-ERROR", f"regression replays failed: {ex}"))
            continue
        for (kind, e, rp, r), res in zip(lst, results):
            same = res.get("status") == "violation" and eng.signature(res) == r["expect"]["signature"]
            if kind == "open":
                if same:
                    out.append(("KNOWN", f"KNOWN-FINDING: property={prop} {e['id']}: {e['what'][:160]}"))
                else:
                    out.append(("NOTE", f"recorded finding {e['id']} did not reproduce from {rp} (status={res.get('status')})"))
            else:
                if res.get("status") == "violation":
                    out.append(("VIOLATION", (os.path.join(VERIF, rp), eng.signature(res), res["violation"], len(r["records"]))))
                elif res.get("status") != "ok":
                    out.append(("HARNESS-ERROR", f"fixed-finding replay {rp}: status={res.get('status')} {str(res.get('error'))[:300]}"))
    return out


def write_evidence(prop, tier, seed, level, agg, wall, extra_cov=None, violations=0, assumptions=None):
    P = PROPS[prop]
    os.makedirs(os.path.join(VERIF, "evidence"), exist_ok=True)
    runs = agg["runs"]
    cov = {
        "evaluations": runs + int(agg["stats"].get("fault_variants", 0)) + int(agg["stats"].get("restarts", 0)),
        "simulated_runs": runs,
        "distinct_nontrivial": len(agg["nontrivial_digests"]),
        "rule": P["rule"],
        "samples": agg["samples"][:4] or [{"note": "no sample kept"}],
        "distinct_traces": len(agg["digests"]),
        "status_counts": {k: agg.get(k, 0) for k in ("ok", "violation", "excluded", "harness_error", "timeout", "crash")},
        "runs_per_hour": int(runs / wall * 3600) if wall > 0 else 0,
        "simulated_time": {"ops_executed": agg["stats"].get("ops", 0), "solver_queries_checked": agg["stats"].get("queries", 0),
                           "z3_check_ticks": agg["stats"].get("checks", 0)},
        "totals": agg["stats"],
        "faults_fired_by_kind": agg["fault_kinds"],
        "frontends_exercised": agg["handles"],
        "probes": agg["cov"],
        "excluded_by_alphabet_filter": {"count": agg.get("excluded", 0), "samples": agg["excluded_samples"]},
        "hash_seeds": HASHSEEDS[:2 if runs < 20000 else 4],
        "repo_tree_digest": repo_tree_digest(),
        "real_vs_stub": {
            "real": ["claripy ASTs/simplifier/frontends/mixins/backends", "libz3 + z3py", "CPython refcount/gc", "pickle"],
            "simulator_owned": ["decision that Z3 gives up (z3.Solver.check/reason_unknown substituted; kind rlimit_real: the "
                                "real check runs under a Z3 resource budget and Z3 itself answers unknown)",
                                "identity hash of annotation objects without __hash__ (serial numbers; injected address reuse)",
                                "hash order of solver objects (serial-number hash, salted per run)",
                                "PYTHONHASHSEED per group", "LRU size / reuse_z3_solver knobs"],
        },
    }
    if extra_cov:
        cov.update(extra_cov)
    ev = {
        "property_id": prop, "tier": tier, "seed": seed, "level": level, "coverage": cov, "wall_s": round(wall, 2),
        "violations": violations,
        "assumptions": assumptions or [
            "reference = explicit enumeration of all assignments (widths <= 8 bits, <= 12 bits total): exact there, "
            "says nothing about wider vectors",
            "Z3 is deterministic for identical call sequences from an identical (forked) process image",
            "sampling, not enumeration: a clean batch is evidence, not proof",
        ],
    }
    with open(os.path.join(VERIF, "evidence", f"{prop}.json"), "w") as f:
        json.dump(ev, f, indent=1, sort_keys=True, default=lambda o: sorted(o) if isinstance(o, set) else str(o))


def check_main(prop, tier, seed=None, runs=None, opts=None):
    """returns exit code"""
    t0 = time.monotonic()
    P = PROPS[prop]
    if seed is None:
        seed = int(os.environ.get("VERIF_SEED", default_seed(tier)))
    if runs is None:
        runs = int(os.environ.get("VERIF_RUNS", P[tier]))
    print(f"SEED {seed} property={prop} tier={tier} runs={runs} repo={REPO} tree={repo_tree_digest()}", flush=True)
    phases = P.get("phases_thorough") if (tier == "thorough" and P.get("phases_thorough")) else P.get("phases")
    if phases and not (opts and (opts.get("profile") or opts.get("granularity"))):
        agg = None
        for ph in phases:
            n = max(1, int(runs * ph["share"]))
            po = dict(ph.get("opts", {}))
            if "profile" in ph:
                po["profile"] = ph["profile"]
            a = run_batch(prop, tier, seed, n, dict(opts or {}, **po))
            for v in a["violations"]:
                v["phase_opts"] = po
            agg = a if agg is None else merge_agg(agg, a)
        runs = agg["runs_expected"] = sum(max(1, int(runs * ph["share"])) for ph in phases)
    else:
        agg = run_batch(prop, tier, seed, runs, opts)
    wall = time.monotonic() - t0
    known_lines, vio_lines = [], []
    if agg["violations"]:
        known_lines, vio_lines = handle_violations(prop, seed, dict(P.get('opts', {}), **(opts or {})), agg)
    # a run that killed its worker process (segfault/abort inside claripy or libz3) is a violation if it does so again
    # from a pristine process; the crash then IS the replayable failure
    crash_confirmed = 0
    for cr in (agg.get("crashes") or [])[:3]:
        eng_name = P["engine"]
        eng = engine_mod(eng_name)
        popts = dict(P.get("opts", {}), **(opts or {}))
        for ph in (P.get("phases") or [{}]):
            o2 = dict(popts, **ph.get("opts", {}))
            if "profile" in ph:
                o2["profile"] = ph["profile"]
            try:
                rec = eng.generate(prop, seed, cr["idx"], o2)
            except Exception:  # noqa: BLE001
                continue
            rec["config"]["hashseed"] = cr["hashseed"]
            try:
                res = exec_remote(eng_name, [rec], cr["hashseed"])
            except GroupFailed:
                res = {"status": "crash"}
            if res.get("status") == "crash":
                res["violation"] = {"clause": "process-crashed", "detail": {"signal": res.get("signal"), "op": "run",
                                                                            "cls": eng_name}}
                path = write_replay(prop, [rec], res, f"{seed}-{cr['idx']}-crash")
                vio_lines.append(("VIOLATION", path, ["process-crashed"], res["violation"], 1))
                crash_confirmed += 1
                break
    # replays of recorded findings: an open one is re-confirmed (KNOWN-FINDING), a fixed one must stay fixed
    reg_lines = regression_replays(prop)
    for kind, text in reg_lines:
        if kind == "KNOWN":
            if text not in known_lines:
                known_lines.append(text)
        else:
            vio_lines.append((kind, *text) if isinstance(text, tuple) else (kind, text))
    wall = time.monotonic() - t0
    real_vios = [v for v in vio_lines if v[0] == "VIOLATION"]
    harness_bad = agg["harness_error"] + agg["timeout"] + (agg["crash"] if not crash_confirmed else 0) + len(agg["group_failures"]) + \
        len([v for v in vio_lines if v[0] in ("HARNESS-ERROR", "NOT-REPRODUCED")])
    regression_count = len(reg_lines)
    level = P.get("level", "exploration")
    write_evidence(prop, tier, seed, level, agg, wall, violations=len(real_vios),
                   extra_cov={"violating_runs_by_signature": _sig_counts(prop, agg), "known_findings_seen": known_lines,
                              "regression_replays_run": regression_count})
    for line in known_lines:
        print(line)
    print(f"runs={agg['runs']} ok={agg['ok']} violating={agg['violation']} excluded={agg['excluded']} "
          f"harness_error={agg['harness_error']} timeout={agg['timeout']} crash={agg['crash']} "
          f"distinct={len(agg['digests'])} nontrivial={len(agg['nontrivial_digests'])} wall={wall:.1f}s")
    for v in vio_lines:
        if v[0] == "VIOLATION":
            print(f"VIOLATION property={prop} replay={v[1]}")
            print(f"  signature={v[2]} detail={json.dumps(v[3])[:600]}")
        elif v[0] == "NOTE":
            print(f"NOTE {v[1]}")
        else:
            print(f"{v[0]} {v[1]}")
    for e in agg["errors"][:5]:
        print("HARNESS", json.dumps(e)[:1500])
    for gf in agg["group_failures"]:
        print("HARNESS-ERROR", gf)
    if real_vios:
        return 1
    if harness_bad or agg["runs"] < runs:
        print(f"HARNESS-ERROR incomplete or failed batch: runs={agg['runs']}/{runs} bad={harness_bad}")
        return 2
    return 0


def _sig_counts(prop, agg):
    eng = engine_mod(PROPS[prop]["engine"])
    c = {}
    for r in agg["violations"]:
        k = json.dumps(eng.signature(r))
        c[k] = c.get(k, 0) + 1
    return c


def replay_main(prop, path):
    with open(path) as f:
        rp = json.load(f)
    eng_name = rp.get("engine", PROPS[prop]["engine"])
    eng = engine_mod(eng_name)
    expect = rp.get("expect")
    recs = rp["records"]
    res = exec_remote(eng_name, recs, recs[-1]["config"].get("hashseed", 0))
    if expect and expect.get("signature") == ["process-crashed"] and res.get("status") == "crash":
        print(f"VIOLATION property={prop} replay={path}")
        print(f"  process crashed again (signal {res.get('signal')})")
        return 1
    if res.get("status") == "violation" and (expect is None or eng.signature(res) == expect["signature"]):
        print(f"VIOLATION property={prop} replay={path}")
        print("  " + json.dumps(res["violation"])[:1200])
        return 1
    print(f"NOT-REPRODUCED status={res.get('status')} {json.dumps(res.get('violation'))[:400]}")
    return 2 if expect is not None else 0
