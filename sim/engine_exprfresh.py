"""C18, expressions across processes ("crash" = the process ends; only the pickle survives).

Process A (the worker) builds a pool of expressions of every sort (BV / Bool / FP / String, annotated with built-in and
user annotation classes, colliding Python hashes) and pickles them in one blob.  Process B - a fresh interpreter with
another PYTHONHASHSEED, in which some of the same specs may already be alive ("prelive": the hash-keyed deserializer
must merge with them and only with them) - unpickles the blob.  Oracles:

  B1  the unpickled expression has exactly the deep structure recorded in A (op, args, length, ordered annotations with
      class and attribute values, variables, symbolic flag), compared field by field;
  B2  among the unpickled expressions and the prelive ones, `a is b` <=> deep structures equal (the deserializer never
      merges different expressions and never duplicates an equal live one);
  B3  rebuilding the spec in B gives the unpickled object whenever it gives the same deep structure;
  B4  meaning: with every variable pinned, a plain Solver evaluates the unpickled expression to the value A got;
  A5  B pickles what it unpickled; loading that in A (originals still alive) gives the original objects.
"""
from __future__ import annotations

import base64
import gc
import hashlib
import json
import os
import pickle
import subprocess
import sys

from . import engine_hashcons as H
from .rng import Rng, derive

name = "history"  # records of this sub-engine travel through engine_history (kind == "exprfresh")

PINS = [{"x": 0xA5, "y": 0x3C, "p": True, "f": 1.5}, {"x": 0, "y": 255, "p": False, "f": -0.0}]


class _Done(Exception):
    pass


class PlainAnn:  # replaced by a claripy.Annotation subclass on first use
    pass


class PlainAnn2:
    pass


def classes(claripy):
    H.user_classes(claripy)
    g = globals()
    if not isinstance(g["PlainAnn"], type) or not issubclass(g["PlainAnn"], claripy.Annotation):
        class PlainAnn(claripy.Annotation):  # the most common kind of user annotation: no __eq__/__hash__ at all
            def __init__(self, v):
                self.v = v

        PlainAnn.__module__ = __name__
        PlainAnn.__qualname__ = "PlainAnn"
        g["PlainAnn"] = PlainAnn

        class PlainAnn2(claripy.Annotation):  # another class of the same kind, with the same attributes
            def __init__(self, v):
                self.v = v

        PlainAnn2.__module__ = __name__
        PlainAnn2.__qualname__ = "PlainAnn2"
        g["PlainAnn2"] = PlainAnn2
    return g["PlainAnn"]


_IDH = {"n": 0, "salt": None, "map": None, "queue": [], "trace": None}


def install_identity_hash_seam(claripy, salt):
    """The structural hash of a node takes an annotation without __hash__ through Python's identity hash - the object's
    ADDRESS.  Addresses of dead objects are reused by the allocator, so a pickled hash can collide with the hash of a
    different live node by accident of heap layout: a source of nondeterminism (observed: one run in ~1000 of this phase
    reported 'unpickled-expression-differs' and did not replay).  Seam: `_arg_serialize` looks `hash` up in its module's
    globals, so the simulator supplies one that gives every identity-hashed annotation object a serial number that is
    unique per (process, object) and never reused; everything else goes to the builtin.  claripy's code path (hash(arg)
    for an annotation without a content hash) is unchanged."""
    import builtins
    import weakref

    from .rng import mix64

    PA = (classes(claripy), globals()["PlainAnn2"])
    st = _IDH
    if st["map"] is None:
        st["map"] = weakref.WeakKeyDictionary()
        st["salt"] = salt

    def sim_hash(o):
        if type(o) in PA:
            s = st["map"].get(o)
            if s is None:
                if st["queue"]:
                    # injected ADDRESS REUSE: the new object gets the "address" of a dead one (what the allocator does
                    # all the time with freed memory); only ever used for serials whose objects are dead
                    s = st["queue"].pop(0)
                else:
                    st["n"] += 1
                    s = mix64(st["salt"] ^ st["n"]) & ((1 << 61) - 2)
                st["map"][o] = s
                if st["trace"] is not None:
                    st["trace"].append(s)
            return s
        return builtins.hash(o)

    claripy.ast.base.hash = sim_hash


def flip_plain(sp, how="value"):
    """the decoy of an address-reuse injection: same expression, identity-hashed annotations with other contents
    (how == "value") or of another class with the same contents (how == "class")"""
    if isinstance(sp, list):
        if sp and sp[0] == "plain_ann":
            if how == "class":
                return ["plain_ann2", sp[1], flip_plain(sp[2], how)]
            return ["plain_ann", 3 - sp[1] if sp[1] in (1, 2) else 1, flip_plain(sp[2], how)]
        return [flip_plain(x, how) for x in sp]
    return sp


def has_plain(sp):
    if isinstance(sp, list):
        if sp and sp[0] in ("plain_ann", "plain_ann2"):
            return True
        return any(has_plain(x) for x in sp)
    return False


_H_build = H.build


EXTRA_SORT = {"sext": "bv16", "shl": "bv", "lshr": "bv", "rol": "bv", "reverse": "bv", "neg": "bv", "sdiv": "bv", "wide": "bv100",
              "sge": "bool", "fplt": "bool", "fpisnan": "bool", "fptobv": "bv64", "fpconv": "fp", "strlen": "bv64",
              "strsub": "str", "fpneg": "fp", "fpv_special": "fp"}


def build(sp, claripy):
    op = sp[0]
    if op == "plain_ann":
        return build(sp[2], claripy).annotate(classes(claripy)(sp[1]))
    if op == "plain_ann2":
        classes(claripy)
        return build(sp[2], claripy).annotate(globals()["PlainAnn2"](sp[1]))
    if op in EXTRA_SORT:
        B = lambda x: build(x, claripy)  # noqa: E731
        if op == "sext":
            return claripy.SignExt(8, B(sp[1]))
        if op == "shl":
            return B(sp[1]) << B(sp[2])
        if op == "lshr":
            return claripy.LShR(B(sp[1]), B(sp[2]))
        if op == "rol":
            return claripy.RotateLeft(B(sp[1]), B(sp[2]))
        if op == "reverse":
            return claripy.Reverse(claripy.Concat(B(sp[1]), B(sp[2])))[7:0]
        if op == "neg":
            return -B(sp[1])
        if op == "sdiv":
            return claripy.SDiv(B(sp[1]), B(sp[2]))
        if op == "wide":
            return claripy.BVV(sp[1], 100) + claripy.ZeroExt(92, B(sp[2]))
        if op == "sge":
            return claripy.SGE(B(sp[1]), B(sp[2]))
        if op == "fplt":
            return claripy.fpLT(B(sp[1]), B(sp[2]))
        if op == "fpisnan":
            return claripy.fpIsNaN(B(sp[1]))
        if op == "fptobv":
            return claripy.fpToIEEEBV(B(sp[1]))
        if op == "fpconv":
            return claripy.fpToFP(claripy.fp.RM.RM_TowardsZero, B(sp[1]), claripy.FSORT_DOUBLE)
        if op == "fpneg":
            return claripy.fpNeg(B(sp[1]))
        if op == "fpv_special":
            return claripy.FPV(float(sp[1]), claripy.FSORT_DOUBLE)
        if op == "strlen":
            return claripy.StrLen(B(sp[1]))
        if op == "strsub":
            return claripy.StrSubstr(claripy.BVV(sp[1], 64), claripy.BVV(sp[2], 64), B(sp[3]))
    # children are rebuilt through this function (H.build looks its own name up at call time): plain_ann may sit anywhere
    saved = H.build
    try:
        H.build = build
        return _H_build(sp, claripy)
    finally:
        H.build = saved


def sort_of(sp):
    if sp[0] in EXTRA_SORT:
        return EXTRA_SORT[sp[0]]
    return sort_of(sp[2]) if sp[0] in ("plain_ann", "plain_ann2") else H.sort_of(sp)


from .engine_hashcons import _attrs  # noqa: E402


def deep(a, claripy, memo):
    Base = claripy.ast.Base
    if isinstance(a, Base):
        k = id(a)
        if k in memo:
            return memo[k]
        anns = [json.dumps([type(x).__name__, sorted((kk, repr(vv)) for kk, vv in _attrs(x).items())]) for x in a.annotations]
        r = json.dumps([type(a).__name__, a.op, getattr(a, "length", None), [deep(x, claripy, memo) for x in a.args], anns,
                        sorted(a.variables), bool(a.symbolic)])
        memo[k] = r
        return r
    if isinstance(a, float):
        return json.dumps(["float", a.hex() if a == a else "nan"])
    return json.dumps([type(a).__name__, repr(a)])


def spec_names(sp, out):
    if isinstance(sp, list) and sp:
        if sp[0] in ("x", "b", "fp", "str"):
            out.add((sp[0], sp[1], sp[2] if len(sp) > 2 else None))
        for x in sp[1:]:
            spec_names(x, out)
    return out


def value_of(claripy, a, sp, pin):
    """value of a under the pin assignment by a plain Solver, as a JSON-able token; None = not judged"""
    names = spec_names(sp, set())
    if any(k == "str" for k, _, _ in names) or sort_of(sp) == "str":
        return None
    cons = []
    for k, n, w in sorted(names, key=repr):
        if k == "x":
            cons.append(claripy.BVS(n, w, explicit_name=True) == pin[n])
        elif k == "b":
            v = claripy.BoolS(n, explicit_name=True)
            cons.append(v if pin[n] else claripy.Not(v))
        elif k == "fp":
            so = claripy.FSORT_FLOAT if w == "f" else claripy.FSORT_DOUBLE
            # bit-exact pin (fpEQ would not tell -0.0 from 0.0)
            cons.append(claripy.fpToIEEEBV(claripy.FPS(n, so, explicit_name=True)) == claripy.fpToIEEEBV(claripy.FPV(pin[n], so)))
    s = claripy.Solver()
    try:
        r = s.eval(a, 2, extra_constraints=cons)
    except claripy.errors.ClaripyError as e:
        return ["error", type(e).__name__]
    out = []
    for v in r:
        if isinstance(v, float):
            out.append("nan" if v != v else v.hex())
        else:
            out.append(repr(v))
    return sorted(out)


# ------------------------------------------------------------------ generation
def gen_extra(r: Rng):
    """shapes with other argument kinds in the pickled state: rounding modes, sorts, wide integers, special floats"""
    bv = lambda: H.gen_bv8(r, r.range(0, 1))  # noqa: E731
    fpd = lambda: r.choice([["fp", "f", "d"], ["fpv", r.choice([0.0, -0.0, 1.5]), "d"],  # noqa: E731
                            ["fpv_special", r.choice(["nan", "inf", "-inf", "5e-324", "1.7976931348623157e308"])],
                            ["fpadd", ["fp", "f", "d"], ["fpv", 1.5, "d"]]])
    k = r.below(17)
    if k == 0:
        return ["sext", bv()]
    if k in (1, 2, 3):
        return [("shl", "lshr", "rol")[k - 1], bv(), bv()]
    if k == 4:
        return ["reverse", bv(), bv()]
    if k == 5:
        return ["neg", bv()]
    if k == 6:
        return ["sdiv", bv(), bv()]
    if k == 7:
        return ["wide", r.choice([(1 << 70) + 3, (1 << 100) - 1, (1 << 61) - 1, 1 << 64]), bv()]
    if k == 8:
        return ["sge", bv(), bv()]
    if k == 9:
        return ["fplt", fpd(), fpd()]
    if k == 10:
        return ["fpisnan", fpd()]
    if k == 11:
        return ["fptobv", fpd()]
    if k == 12:
        return ["fpconv", r.choice([["fp", "f", "f"], ["fpv", 1.5, "f"]])]
    if k == 13:
        return ["fpneg", fpd()]
    if k == 14:
        return ["fpv_special", r.choice(["nan", "inf", "-inf", "5e-324"])]
    if k == 15:
        return ["strlen", r.choice([["str", "s"], ["strcat", ["str", "s"], ["strv", "a"]]])]
    return ["strsub", r.choice([0, 1]), r.choice([1, 2]), ["strcat", ["str", "s"], ["strv", "ab"]]]


def gen_spec(r: Rng):
    if r.chance(25):
        sp = gen_extra(r)
        return H.maybe_ann(r, sp) if r.chance(50) else sp
    sp = H.gen_spec(r)
    if r.chance(12):
        sp = ["plain_ann", r.choice([1, 2]), sp]
    elif r.chance(8) and sort_of(sp) == "bv":
        sp = ["add", ["plain_ann", 1, ["x", "x", 8]], sp]
    return sp


def generate(prop, seed, idx, opts):
    r = Rng(derive(seed, prop, idx, "exprfresh"))
    pool = [gen_spec(r) for _ in range(r.range(4, 24))]
    for sp in list(pool):
        if r.chance(30):
            s2 = json.loads(json.dumps(sp))
            if H._swap_colliding(s2):
                pool.append(s2)
    ops = [{"op": "build", "spec": sp, "prelive": r.chance(30)} for sp in pool]
    ops.append({"op": "ship"})
    cfg = {"child_hashseed": r.choice([0, 1, 2, 3, 99, 31337, 4242]), "proto": r.choice([2, 4, 5]), "pin": r.below(len(PINS)),
           "prelive_first": r.chance(50), "mode": "same" if r.chance(50) else "fresh"}
    cfg["reuse_identity"] = (r.choice(["value", "value", "class"]) if r.chance(60) else False) if cfg["mode"] == "same" else False
    return {"property": prop, "engine": "history", "kind": "exprfresh", "origin_seed": seed, "run_index": idx,
            "profile": "C18expr", "config": cfg, "ops": ops}


# ------------------------------------------------------------------ execution (process A)
def execute(rec):
    import claripy

    classes(claripy)
    install_identity_hash_seam(claripy, 1 << 44)
    for b in (claripy.backends.z3, claripy.backends.concrete, claripy.backends.vsa):
        b.downsize()
    gc.collect()
    cfg = rec["config"]
    pin = PINS[cfg.get("pin", 0)]
    stats = {"ops": 0, "queries": 0, "adds": 0, "exprs_shipped": 0, "restarts": 0, "values_compared": 0, "prelive": 0}
    out = {"status": "ok"}
    items = []
    objs = []
    memo = {}
    last = len(rec["ops"]) - 1
    try:
        for i, op in enumerate(rec["ops"]):
            stats["ops"] += 1
            if op["op"] != "build":
                continue
            _IDH["trace"] = []
            try:
                a = build(op["spec"], claripy)
            except claripy.errors.ClaripyError:
                continue
            finally:
                serials, _IDH["trace"] = _IDH["trace"], None
            objs.append(a)
            items.append({"i": i, "spec": op["spec"], "prelive": bool(op.get("prelive")), "deep": deep(a, claripy, memo),
                          "value": value_of(claripy, a, op["spec"], pin), "serials": serials})
        if rec["ops"] and rec["ops"][-1]["op"] == "ship" and objs:
            try:
                blob = pickle.dumps(objs, cfg.get("proto", 4))
            except Exception as e:  # noqa: BLE001
                raise H.Broken("pickle-failed", {"op_index": last, "exc": {"type": type(e).__name__, "msg": str(e)[:200]}}) from None
            # A0: within the process, while the originals are alive, unpickling gives the original objects - also for
            # expressions whose annotations have no __eq__ / __hash__ of their own
            try:
                back0 = pickle.loads(blob)
            except Exception as e:  # noqa: BLE001
                raise H.Broken("unpickle-failed", {"op_index": last, "where": "same process, originals alive",
                                                   "exc": {"type": type(e).__name__, "msg": str(e)[:200]}}) from None
            for it, a0, b0 in zip(items, objs, back0):
                if b0 is not a0:
                    raise H.Broken("unpickled-expression-not-identical-while-original-alive", {
                        "op_index": last, "spec": it["spec"], "same_structure": deep(b0, claripy, {}) == it["deep"]})
            back0 = b0 = a0 = None
            if cfg.get("mode") == "same":
                # the "crash" keeps the process: every reference is dropped and collected, then the blob is loaded
                objs = None
                memo.clear()
                a = None
                for b in (claripy.backends.z3, claripy.backends.concrete, claripy.backends.vsa):
                    b.downsize()
                gc.collect()
                decoys = []
                if cfg.get("reuse_identity"):
                    # fault: address reuse.  For every expression that carried identity-hashed annotations, the same
                    # expression with DIFFERENT annotation contents is built now, and its new annotation objects get the
                    # addresses (serials) of the dead ones - so it has the structural hash the blob remembers.
                    for it in items:
                        if it["serials"] and has_plain(it["spec"]):
                            _IDH["queue"] = list(it["serials"])
                            try:
                                decoys.append(build(flip_plain(it["spec"], cfg["reuse_identity"] if isinstance(cfg["reuse_identity"], str) else "value"), claripy))
                            except claripy.errors.ClaripyError:
                                pass
                            finally:
                                _IDH["queue"] = []
                    stats["address_reuse_decoys"] = len(decoys)
                res = check_unpickled(claripy, items, blob, pin, cfg.get("prelive_first", False), cfg.get("proto", 4))
                decoys = None
                stats.update(restarts=1, exprs_shipped=len(items), queries=res.get("checked", 0),
                             values_compared=res.get("values_compared", 0), prelive=res.get("prelive", 0))
                if res.get("violation"):
                    v = res["violation"]
                    v["detail"].update(op_index=last, in_fresh_process=False)
                    raise H.Broken(v["clause"], v["detail"])
                raise _Done
            env = dict(os.environ)
            env["PYTHONHASHSEED"] = str(cfg.get("child_hashseed", 4242))
            env["PYTHONDONTWRITEBYTECODE"] = "1"
            here = os.path.dirname(os.path.dirname(os.path.abspath(__file__)))
            req = json.dumps({"items": items, "blob": base64.b64encode(blob).decode(), "pin": cfg.get("pin", 0),
                              "proto": cfg.get("proto", 4), "prelive_first": cfg.get("prelive_first", True)})
            p = subprocess.run(["/venv/bin/python", os.path.join(here, "verif.py"), "_exprfresh"], input=req,
                               capture_output=True, text=True, env=env, cwd=here, timeout=300)
            try:
                res = json.loads(p.stdout.strip().splitlines()[-1])
            except Exception:  # noqa: BLE001
                out = {"status": "harness_error", "error": f"exprfresh child failed rc={p.returncode}: {p.stderr[-1500:]}"}
                res = None
            if res is not None:
                stats["restarts"] = 1
                stats["exprs_shipped"] = len(objs)
                stats["queries"] = res.get("checked", 0)
                stats["values_compared"] = res.get("values_compared", 0)
                stats["prelive"] = res.get("prelive", 0)
                if res.get("violation"):
                    v = res["violation"]
                    v["detail"].update(op_index=last, in_fresh_process=True, fresh_hashseed=cfg.get("child_hashseed"))
                    raise H.Broken(v["clause"], v["detail"])
                # A5: what B pickled must be our own live objects again
                try:
                    back = pickle.loads(base64.b64decode(res["blob"]))
                except Exception as e:  # noqa: BLE001
                    raise H.Broken("unpickle-failed", {"op_index": last, "where": "back in the original process",
                                                       "exc": {"type": type(e).__name__, "msg": str(e)[:200]}}) from None
                for it, a, b in zip(items, objs, back):
                    if b is not a and not has_plain(it["spec"]):
                        raise H.Broken("round-trip-through-other-process-not-identical", {
                            "op_index": last, "spec": it["spec"], "same_structure": deep(b, claripy, {}) == it["deep"]})
                    if has_plain(it["spec"]) and deep(b, claripy, {}) != it["deep"]:
                        raise H.Broken("unpickled-expression-differs", {"op_index": last, "spec": it["spec"],
                                                                        "where": "back in the original process"})
    except _Done:
        pass
    except H.Broken as b:
        d = dict(b.detail)
        d.update(op="ship", cls="ast")
        out = {"status": "violation", "violation": {"clause": b.clause, "detail": d}}
    tr = hashlib.sha256(json.dumps([[it["deep"], it["value"]] for it in items]).encode()).hexdigest()[:16]
    objs = None
    gc.collect()
    out["digest"] = tr
    out["stats"] = stats
    out["fired"] = []
    out["cov"] = {"expr_same_process_runs" if cfg.get("mode") == "same" else "expr_cross_process_runs": 1}
    if stats.get("address_reuse_decoys"):
        out["cov"]["address_reuse_injected_runs"] = 1
    out["nontrivial"] = stats["exprs_shipped"] >= 3
    out["handles"] = []
    return out


# ------------------------------------------------------------------ process B
def check_unpickled(claripy, items, blob, pin, prelive_first, proto):
    """oracles B1-B4 on the process that unpickles; returns the result dict (with "violation" on failure)"""
    res = {"checked": 0, "values_compared": 0, "prelive": 0}

    def fail(clause, **d):
        res["violation"] = {"clause": clause, "detail": d}
        return res

    pre = {}

    def make_prelive():
        for it in items:
            if it["prelive"]:
                try:
                    pre[it["i"]] = build(it["spec"], claripy)
                except claripy.errors.ClaripyError:
                    pass
        res["prelive"] = len(pre)

    if prelive_first:
        make_prelive()
    try:
        objs = pickle.loads(blob)
    except Exception as e:  # noqa: BLE001
        import traceback

        return fail("unpickle-failed-in-fresh-process", exc={"type": type(e).__name__, "msg": str(e)[:300],
                                                              "site": traceback.format_exc()[-300:]})
    if not prelive_first:
        make_prelive()
    memo = {}
    ds = []
    for it, a in zip(items, objs):
        d = deep(a, claripy, memo)
        ds.append(d)
        res["checked"] += 1
        if d != it["deep"]:  # B1
            return fail("unpickled-expression-differs", spec=it["spec"], unpickled=d[:300], original=it["deep"][:300],
                        **({"original_full": it["deep"], "unpickled_full": d} if os.environ.get("VERIF_DEBUG") else {}))
    # B2: identity <=> structure, among unpickled and prelive
    pool = [(it["spec"], a, d) for it, a, d in zip(items, objs, ds)]
    pool += [(next(it["spec"] for it in items if it["i"] == i), a, deep(a, claripy, memo)) for i, a in pre.items()]
    for x in range(len(pool)):
        for y in range(x + 1, len(pool)):
            if has_plain(pool[x][0]) or has_plain(pool[y][0]):
                continue
            same_obj = pool[x][1] is pool[y][1]
            same_struct = pool[x][2] == pool[y][2]
            res["checked"] += 1
            if same_obj != same_struct:
                return fail("duplicate-object-after-unpickle" if same_struct else "conflated-by-unpickle",
                            specs=[pool[x][0], pool[y][0]], structure=pool[x][2][:300])
    # B3: rebuilding gives the unpickled object whenever it gives the same structure
    for it, a, d in zip(items, objs, ds):
        if has_plain(it["spec"]):
            continue
        try:
            b = build(it["spec"], claripy)
        except claripy.errors.ClaripyError:
            continue
        res["checked"] += 1
        if deep(b, claripy, memo) == d and b is not a:
            return fail("unpickled-expression-not-hash-consed", spec=it["spec"])
    # B4: meaning
    for it, a in zip(items, objs):
        if it["value"] is None:
            continue
        v = value_of(claripy, a, it["spec"], pin)
        res["values_compared"] += 1
        if v != it["value"]:
            return fail("unpickled-expression-not-equivalent", spec=it["spec"], value_here=v, value_original=it["value"])
    res["blob"] = base64.b64encode(pickle.dumps(objs, proto)).decode()
    return res


def child_main():
    req = json.loads(sys.stdin.read())
    import claripy

    classes(claripy)
    install_identity_hash_seam(claripy, 2 << 44)
    res = check_unpickled(claripy, req["items"], base64.b64decode(req["blob"]), PINS[req.get("pin", 0)],
                          req.get("prelive_first", True), req.get("proto", 4))
    print(json.dumps(res))


def signature(res):
    v = res.get("violation")
    if not v:
        return None
    d = v["detail"]
    exc = d.get("exc") or {}
    return [v["clause"], d.get("cls"), d.get("op"), exc.get("type"), None]


def shrink_ops(rec):
    import copy

    for i, op in enumerate(rec["ops"]):
        if op["op"] != "build":
            continue
        if op.get("prelive"):
            r = copy.deepcopy(rec)
            r["ops"][i]["prelive"] = False
            yield f"op{i}:-prelive", r
        for cand in _shrink_spec(op["spec"]):
            r = copy.deepcopy(rec)
            r["ops"][i]["spec"] = cand
            yield f"op{i}:spec", r


def _shrink_spec(sp, depth=0):
    so = sort_of(sp)
    for a in sp[1:]:
        if isinstance(a, list) and a and isinstance(a[0], str) and a[0] not in ("SI", "REG", "UNINIT", "ContentAnn", "ConstHashAnn",
                                                                                  "TwinHashAnn", "RelocAnn"):
            try:
                if sort_of(a) == so:
                    yield a
            except Exception:  # noqa: BLE001
                pass
    if depth < 3:
        for i, a in enumerate(sp):
            if i > 0 and isinstance(a, list) and a and isinstance(a[0], str):
                for cand in _shrink_spec(a, depth + 1):
                    c = list(sp)
                    c[i] = cand
                    yield c
