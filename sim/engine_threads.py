"""Engine "threads" (C20): solvers used from several threads answer as if used alone.

2..8 real threads, each running its own solver history (the C11/C12/C13 machine, own solver objects) over a shared
pool of expression objects; all of claripy and Z3 real, per-thread Z3 contexts real.  The simulator owns the
interleaving: baton scheduler with pre-emption at LINE events in claripy code (run-length budgets drawn from the
schedule PRNG), at SimLock contention (_gc_lock) and at thread start/exit.  Oracles: (i) every answer of every thread
is checked against that thread's reference model (exactly the single-thread oracle, so every determined answer equals
the solo answer); (ii) no exception the single-thread machine would not accept; (iv) confinement monitor at the Z3
check seam: the z3.Solver and every assumption handed to check() belong to the calling thread's own Z3 context.
"""
from __future__ import annotations

import gc
import hashlib
import os
import threading

from . import spec as S
from .engine_history import alphabet_filter, setup_run
from .gen import PROFILES, VAR_SHAPES, HistoryGen
from .machine import Machine, Violation, Z3Seam
from .rng import Rng, derive
from .sched import Deadlock, Scheduler, SimLock

name = "threads"

THREAD_PROFILE = {
    "frontends": [("Solver", 5), ("SolverCacheless", 2), ("SolverComposite", 3), ("SolverHybrid", 1), ("SolverReplacement", 1)],
    "length": (3, 14),
    "weights": {"forget": 0, "gc": 1, "backend_downsize": 1, "branch": 5, "is_true": 6, "is_false": 6},
    "reuse_pct": 15,
    "truth_template_pct": 50,
}


def warmup():
    from . import engine_history

    engine_history.warmup()


def generate(prop, seed, idx, opts):
    r = Rng(derive(seed, prop, idx, "threads"))
    n = r.weighted([(2, 5), (3, 4), (4, 2), (6, 1), (8, 1)])
    shape = r.choice(VAR_SHAPES)
    prof = dict(THREAD_PROFILE, var_shapes=[shape])
    threads = []
    cfg = None
    for t in range(n):
        g = HistoryGen(derive(seed, prop, idx, "t", t), prof)
        rec = g.generate()
        cfg = cfg or rec["config"]
        threads.append({"ops": rec["ops"]})
    cfg = dict(cfg)
    cfg.update(threads=n, sched_seed=r.next() & 0xFFFFFFFF, mean_run=r.choice([20, 60, 200, 600]),
               policy=r.weighted([("random", 7), ("pct", 2)]), main_actor=r.chance(40))
    return {"property": prop, "engine": name, "origin_seed": seed, "run_index": idx, "config": cfg, "threads": threads}


def execute(rec, gc_monitor=False):
    """gc_monitor (C19, full-stack phase): the real gc switch is put in the configured initial state; at every Z3
    check (certainly inside a condom'd call) it must be off, at quiescence it must be what it was and the
    in-progress counter zero."""
    import claripy
    import claripy.backends.backend_z3 as bz

    cfg = rec["config"]
    setup_run(claripy, cfg)
    gcstate = {"violation": None, "inside_checks": 0, "in_progress": 0, "max_in_progress": 0}
    if gc_monitor:
        gc_initial = bool(cfg.get("gc_initially_enabled", True))
        (gc.enable if gc_initial else gc.disable)()
        if bz._active_z3_calls != 0:
            bz._active_z3_calls = 0
    sched = Scheduler(cfg["sched_seed"], policy=cfg.get("policy", "random"), switch_pct=100, max_steps=4000000)
    sched.expected_steps = 300
    lock = SimLock(sched)
    saved_lock = bz._gc_lock
    bz._gc_lock = lock
    root = Z3Seam()
    root.per_thread = {}
    root.install()
    shared_slots = {}
    machines = []
    confinement = {"checks": 0, "violations": []}
    zb = claripy.backends.z3

    def gc_invariant(tid, where):
        # "in progress" is counted by the harness around the real guard functions (a thread has returned from _enter_z3
        # and not yet called _exit_z3), so the invariant does not depend on how the guard orders its own updates.
        # Calls that do not go through the guard (_satisfiable, _solution, ... are not condom'd in this tree) are not
        # calls in progress in C19's sense.
        if gcstate["in_progress"] >= 1:
            gcstate["inside_checks"] += 1
            if gc.isenabled():
                raise Violation("gc-enabled-while-call-in-progress", {"op": "schedule", "cls": "backend_z3",
                                                                      "in_progress": gcstate["in_progress"],
                                                                      "at": [str(where[0])[-60:], where[1]]})
        if bz._active_z3_calls < 0:
            raise Violation("active-count-negative", {"op": "schedule", "cls": "backend_z3", "active": bz._active_z3_calls})

    saved_guard = (bz._enter_z3, bz._exit_z3)
    if gc_monitor:
        real_enter, real_exit = saved_guard

        def enter_w():
            real_enter()
            gcstate["in_progress"] += 1
            gcstate["max_in_progress"] = max(gcstate["max_in_progress"], gcstate["in_progress"])

        def exit_w():
            gcstate["in_progress"] -= 1
            real_exit()

        bz._enter_z3, bz._exit_z3 = enter_w, exit_w

    if gc_monitor:
        sched.on_step = gc_invariant

    def on_check(slf, assumptions):
        confinement["checks"] += 1
        sched.ticks += 1  # progress mark for the stall detector (no effect on the schedule)
        if gc_monitor:
            gc_invariant(None, ("z3-check", 0))
        mine = zb._context  # the calling thread's own context
        if slf.ctx is not mine:
            confinement["violations"].append("z3.Solver belongs to another thread's context")
        for a in assumptions:
            for x in (a if isinstance(a, (list, tuple)) else (a,)):
                c = getattr(x, "ctx", None)
                if c is not None and c is not mine:
                    confinement["violations"].append("assumption built in another thread's context")
        if confinement["violations"]:
            raise Violation("context-not-confined", {"op": "check", "cls": "backend_z3", "what": confinement["violations"][0]})

    def make_body(t, trec):
        seam = Z3Seam()
        seam.installed = True
        seam.on_check = on_check
        m = Machine({"config": cfg, "ops": trec["ops"]}, claripy, seam)
        m.slots = shared_slots
        machines.append(m)

        def body():
            root.per_thread[threading.get_ident()] = seam
            m.run()

        return body

    for t, trec in enumerate(rec["threads"]):
        sched.add_thread(t, make_body(t, trec))
    prefix = os.path.dirname(os.path.realpath(claripy.__file__)) + os.sep
    sched.watch_files(prefix, cfg.get("mean_run", 100))
    try:
        failure = sched.run(main_tid=0 if cfg.get("main_actor") else None)
    finally:
        sched.unwatch()
        bz._gc_lock = saved_lock
        root.uninstall()
        bz._enter_z3, bz._exit_z3 = saved_guard
        if gc_monitor:
            gc_final, active_final = gc.isenabled(), bz._active_z3_calls
            bz._active_z3_calls = 0
            bz._gc_was_enabled = False
            gc.enable()
    out = {"status": "ok"}
    if gc_monitor and failure is None:
        if gc_final != gc_initial:
            failure = Violation("gc-flag-not-restored", {"op": "schedule", "cls": "backend_z3", "initial": gc_initial,
                                                         "final": gc_final})
        elif active_final != 0:
            failure = Violation("active-count-not-zero-at-quiescence", {"op": "schedule", "cls": "backend_z3",
                                                                        "active": active_final})
    if failure is not None:
        if isinstance(failure, Violation):
            tix = next((i for i, m in enumerate(machines) if getattr(m, "cur_idx", None) is not None and
                        failure.detail.get("op_index") is not None), None)
            d = dict(failure.detail)
            specs = d.pop("specs", None) or []
            # which thread: the machine whose trace ends with a VIOLATION note
            for i, m in enumerate(machines):
                if m.answers and m.answers[-1][2][0] == "VIOLATION":
                    d["thread"] = i
                    tix = i
            bad = alphabet_filter(claripy, machines[tix if tix is not None else 0], specs)
            if bad:
                out = {"status": "excluded", "excluded": bad[:3], "violation": {"clause": failure.clause, "detail": d}}
            else:
                out = {"status": "violation", "violation": {"clause": failure.clause, "detail": d}}
        elif isinstance(failure, Deadlock):
            out = {"status": "violation", "violation": {"clause": "deadlock", "detail": {"op": "schedule", "cls": "threads",
                                                                                          "what": str(failure)}}}
        else:
            import traceback

            tb = "".join(traceback.format_exception(type(failure), failure, failure.__traceback__))[-2500:]
            if "/claripy/" in tb and "/verif/sim/" not in tb.splitlines()[-2]:
                out = {"status": "violation", "violation": {"clause": "unexpected-exception-in-thread", "detail": {
                    "op": "thread", "cls": "threads", "exc": {"type": type(failure).__name__, "msg": str(failure)[:200]},
                    "tb": tb[-900:]}}}
            else:
                out = {"status": "harness_error", "error": tb}
    solo_compared = 0
    if failure is None and out["status"] == "ok" and not gc_monitor:
        # oracle (iii): every thread's history is run again ALONE (cold caches, no scheduler) and every determined answer
        # must be the one the thread got under the schedule.  Answers the reference already pins down (sat, optimum,
        # exhaustive evals) are equal by construction; what this adds are the answers the reference only bounds:
        # is_true / is_false (False is always allowed, but it must not depend on the other threads).
        try:
            for i, m in enumerate(machines):
                setup_run(claripy, cfg)
                sseam = Z3Seam()
                sseam.install()
                solo = Machine({"config": cfg, "ops": rec["threads"][i]["ops"]}, claripy, sseam)
                try:
                    solo.run()
                except Violation:
                    continue  # the history is wrong already when run alone: not a C20 matter
                finally:
                    sseam.uninstall()
                for a, b in zip(m.answers, solo.answers):
                    if a[0] != b[0] or a[1] != b[1]:
                        break
                    x, y = a[2], b[2]
                    if isinstance(x, list) and isinstance(y, list) and x and y and x[0] == y[0] == "truth":
                        solo_compared += 1
                        if x != y:
                            raise Violation("answer-differs-from-solo-run", {
                                "op": a[1], "cls": "threads", "thread": i, "op_index": a[0], "threaded": x, "solo": y,
                                "spec": rec["threads"][i]["ops"][a[0]].get("e")})
        except Violation as v:
            out = {"status": "violation", "violation": {"clause": v.clause, "detail": v.detail}}
    h = hashlib.sha256(sched.digest().encode())
    for m in machines:
        h.update(m.digest().encode())
    out["digest"] = h.hexdigest()[:16]
    st = {"ops": 0, "queries": 0, "adds": 0, "checks": confinement["checks"]}
    for m in machines:
        for k in ("ops", "queries", "adds"):
            st[k] += m.stats[k]
    st["solo_compared"] = solo_compared
    st.update(steps=sched.steps, switches=sched.switches, line_events=sched.events, lock_contended=lock.contended)
    out["stats"] = st
    out["nontrivial"] = sched.switches >= 2 and st["queries"] >= 2
    out["handles"] = sorted({h.cls for m in machines for h in m.handles})
    out["cov"] = {"threads_%d" % len(machines): 1, "contended_runs": 1 if lock.contended else 0,
                  "main_actor_runs": 1 if cfg.get("main_actor") else 0,
                  "line_budget_exhausted_runs": 1 if sched.coarse else 0}
    if gc_monitor:
        out["stats"]["queries"] = gcstate["inside_checks"]
        out["cov"]["fullstack_runs"] = 1
        out["cov"]["fullstack_overlap_runs"] = 1 if gcstate["max_in_progress"] >= 2 else 0
    out["switch_log"] = sched.switch_log[:40]
    gc.collect()
    return out


def signature(res):
    v = res.get("violation")
    if not v:
        return None
    d = v["detail"]
    exc = d.get("exc") or {}
    return [v["clause"], d.get("cls"), d.get("op"), exc.get("type"), exc.get("site")]


def shrink_ops(rec):
    import copy

    ths = rec["threads"]
    for i in range(len(ths)):
        if len(ths) > 1:
            r = copy.deepcopy(rec)
            del r["threads"][i]
            r["config"]["threads"] = len(r["threads"])
            yield f"drop-thread{i}", r
        n = len(ths[i]["ops"])
        for size in (max(1, n // 2), 1):
            for s in range(1, n, size):  # keep the "new" op at index 0
                r = copy.deepcopy(rec)
                del r["threads"][i]["ops"][s:s + size]
                yield f"drop-ops{i}.{s}+{size}", r
    if rec["config"].get("main_actor"):
        r = copy.deepcopy(rec)
        r["config"]["main_actor"] = False
        yield "no-main-actor", r
