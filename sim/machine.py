"""The solver-history machine (DESIGN 5.11): executes an explicit op record against real claripy
solver objects and a reference model, checking the oracle (DESIGN 3.4 / 3.5) after every operation.

A run is a pure function of (code, record).  Nothing here draws random numbers.
"""
from __future__ import annotations

import gc
import hashlib
import json
import pickle
import threading
import traceback

from . import spec as S
from .ref import EnumRef, NoVerdict, NullRef, Z3Ref

EXACT_CLASSES = {"Solver", "SolverCacheless", "SolverComposite", "SolverReplacement", "SolverHybrid", "SolverStrings"}
APPROX_CLASSES = {"SolverVSA"}


QUERY_OPS = {"sat", "eval", "batch_eval", "min", "max", "solution"}
STRUCTURAL = {"new", "branch", "drop", "pickle", "add", "merge", "combine", "add_replacement", "remove_replacement"}


class Violation(Exception):
    def __init__(self, clause, detail):
        super().__init__(clause)
        self.clause = clause
        self.detail = detail


class HarnessError(Exception):
    pass


class Handle:
    __slots__ = ("solver", "ref", "cls", "kw", "lineage", "alive", "mode", "tainted", "origin", "parent", "added",
                 "twin", "pins", "expansions", "held", "conj", "noinval")

    def __init__(self, solver, ref, cls, kw, lineage, mode, origin, parent=None):
        self.parent = parent  # index of the handle this one was branched from (ancestry for merge)
        self.added = []  # AST hashes of constraints the user added to this handle or its ancestors (C16)
        self.twin = None
        self.pins = {}  # var -> value, from user-added constraints of the literal form var == const / b / Not(b)
        self.expansions = []  # constraints ConstraintExpansionMixin derives from answers (accepted in unsat cores)
        self.held = {}  # hash -> constraint: everything the solver's public .constraints list has ever shown (tracked solvers)
        self.noinval = set()  # variables replaced with add_replacement(..., invalidate_cache=False): memoised rewrites of compound terms stay
        self.conj = True  # the handle's model set is that of the CONJUNCTION of its lineage (false after a merge)
        self.solver = solver
        self.ref = ref
        self.cls = cls
        self.kw = kw
        self.lineage = lineage  # specs of every constraint that shaped this handle (for the alphabet filter)
        self.alive = True
        self.mode = mode  # "exact" | "contain"
        self.tainted = False  # after an injected fault with interrupt semantics etc. (unused by default)
        self.origin = origin


def _claripy_frame(tb):
    """innermost claripy function in a traceback -> 'module.qualname' (no line numbers: survives edits)"""
    best = None
    for fs, _ in traceback.walk_tb(tb):
        fn = fs.f_code.co_filename
        if "/claripy/" in fn:
            mod = fn.split("/claripy/", 1)[1].rsplit(".", 1)[0].replace("/", ".")
            best = f"{mod}.{fs.f_code.co_qualname}"
    return best


_CURRENT_SEAM = None


class Z3Seam:
    """Owns z3.Solver.check / reason_unknown (class-level substitution; claripy's own unknown->exception
    mapping in z3_solver_sat stays real).  Counts checks per op, injects planned faults, and monitors
    context confinement."""

    REASONS = {
        "timeout": "timeout",
        "rlimit": "max. resource limit exceeded",
        "memory": "max. memory exceeded",
        "unknown": "(incomplete (theory arithmetic))",
        "canceled": "canceled",
        "interrupt": "interrupted",
    }

    def __init__(self):
        self.installed = False
        self.total = 0
        self.op_checks = 0
        self.cur_op = -1
        self.plan = {}  # (op_index, nth) -> (kind, phase)   nth is 1-based
        self.fired = []
        self.on_check = None  # optional callback(solver)  (C20 confinement monitor / scheduler boundary)
        self.rlimit = 0  # > 0: every check runs under this Z3 resource budget (string phases: Z3's sequence solver can
        #                  loop for minutes; a budget is deterministic where a wall-clock timeout is not)
        self.op_gave_up = 0  # checks of the current op that Z3 really answered "unknown" under that budget
        self.per_thread = None  # C20: thread ident -> that thread's seam

    def install(self):
        """Substitute z3.Solver.check/reason_unknown ONCE per process; the substituted functions dispatch to the
        seam of the current run (workers execute many runs back to back)."""
        import z3

        global _CURRENT_SEAM
        _CURRENT_SEAM = self
        self.installed = True
        if getattr(z3.Solver, "_verif_patched", False):
            return
        z3.Solver._verif_patched = True
        orig_check = z3.Solver.check
        orig_reason = z3.Solver.reason_unknown
        refctx = S.ref_ctx()
        unknown = z3.unknown

        def check(slf, *assumptions):
            seam = _CURRENT_SEAM
            if seam is None or slf.ctx is refctx:
                return orig_check(slf, *assumptions)
            if seam.per_thread is not None:
                seam = seam.per_thread.get(threading.get_ident(), seam)
            seam.total += 1
            seam.op_checks += 1
            if seam.on_check is not None:
                seam.on_check(slf, assumptions)
            f = seam.plan.get((seam.cur_op, seam.op_checks)) if seam.plan else None
            if f is not None and f[0] == "rlimit_real":
                # a REAL give-up: Z3 runs the check under a resource budget (deterministic, unlike a wall-clock
                # timeout) and stops by itself, leaving whatever partial state it leaves; the fault only counts as
                # fired if Z3 actually answered unknown (a check that fits the budget is an ordinary check)
                kind, budget = f
                slf._verif_reason = None
                slf.set("rlimit", int(budget))
                try:
                    r = orig_check(slf, *assumptions)
                finally:
                    slf.set("rlimit", 0)
                if r == unknown:
                    seam.fired.append([seam.cur_op, seam.op_checks, kind, budget])
                return r
            if f is not None and f[0] == "z3exception":
                # Z3 does not only give up by answering unknown: Z3_solver_check_assumptions also fails with an error
                # (observed for real: "reached max unfolding" from the sequence solver), which z3py raises as Z3Exception
                kind, phase = f
                seam.fired.append([seam.cur_op, seam.op_checks, kind, phase])
                if phase == "late":
                    orig_check(slf, *assumptions)
                raise z3.Z3Exception(b"injected: reached max unfolding")
            if f is not None:
                kind, phase = f
                seam.fired.append([seam.cur_op, seam.op_checks, kind, phase])
                if phase == "late":
                    orig_check(slf, *assumptions)
                slf._verif_reason = seam.REASONS[kind]
                return unknown
            slf._verif_reason = None
            if seam.rlimit:
                slf.set("rlimit", seam.rlimit)
                try:
                    r = orig_check(slf, *assumptions)
                finally:
                    slf.set("rlimit", 0)
                if r == unknown:
                    seam.op_gave_up += 1
                return r
            return orig_check(slf, *assumptions)

        def reason_unknown(slf):
            r = getattr(slf, "_verif_reason", None)
            if r is not None:
                return r
            return orig_reason(slf)

        z3.Solver.check = check
        z3.Solver.reason_unknown = reason_unknown

    def uninstall(self):
        global _CURRENT_SEAM
        if _CURRENT_SEAM is self:
            _CURRENT_SEAM = None

    def begin_op(self, idx):
        self.cur_op = idx
        self.op_checks = 0
        self.op_gave_up = 0


_SERIAL = {"n": 0, "salt": 0}


def install_serial_hash(claripy, salt):
    """Frontend objects hash by address by default, which orders set(solvers)/WeakSet iteration differently in
    every process.  A serial-number hash (consistent with identity __eq__) makes it a function of the run."""
    from .rng import mix64

    Frontend = claripy.frontend.frontend.Frontend
    _SERIAL["n"] = 0
    _SERIAL["salt"] = salt
    if getattr(Frontend, "_verif_patched", False):
        return
    Frontend._verif_patched = True

    def __hash__(self):
        d = self.__dict__
        h = d.get("_verif_serial")
        if h is None:
            _SERIAL["n"] += 1
            h = mix64(_SERIAL["salt"] ^ _SERIAL["n"]) & ((1 << 60) - 1)
            d["_verif_serial"] = h
        return h

    Frontend.__hash__ = __hash__


class Machine:
    def __init__(self, record, claripy, seam=None):
        self.rec = record
        self.cl = claripy
        cfg = record["config"]
        self.cfg = cfg
        self.variables = {v[0]: v[1] for v in cfg["vars"]}
        self.order = [v[0] for v in cfg["vars"]]
        self.domains = {v[0]: list(v[2]) for v in cfg["vars"] if len(v) > 2}  # string variables: finite domains
        self.handles: list[Handle] = []
        self.slots: dict[str, object] = {}
        self.trace = hashlib.sha256()
        self.answers = []
        self.stats = {"ops": 0, "queries": 0, "adds": 0, "skipped": 0, "unbuildable": 0, "checks": 0,
                      "unsat_answers": 0, "faults_fired": 0}
        self.seam = seam
        self.base_ref = None
        self.used_specs = []  # specs involved in the op under check (for the alphabet filter)
        self.dry = claripy is None  # dry = reference/handle bookkeeping only (rebuilding state after a restart)
        self.errors = claripy.errors if claripy is not None else None
        self.start_at = 0
        self.checks_per_op = {}
        self.by_idx = {}

    # ------------------------------------------------------------------ helpers
    def ref0(self):
        kind = self.cfg.get("ref", "enum")
        if kind == "z3":
            # wide alphabets: the generator (dry) has no reference at all, the executor asks an independent Z3
            return NullRef() if self.dry else Z3Ref(self.variables, self.order)
        if self.base_ref is None:
            self.base_ref = EnumRef(self.variables, self.order, domains=self.domains)
        return self.base_ref.with_models(self.base_ref.universe)

    def ast(self, sp):
        key = json.dumps(sp)
        a = self.slots.get(key)
        if a is None:
            try:
                a = S.build_claripy(sp, self.variables, self.cl)
            except (self.errors.ClaripyError, MemoryError, OverflowError) as e:
                # building / eager folding fails for this input: C04's subject, not a solver history
                raise _Unbuildable(type(e).__name__ + ": " + str(e)) from e
            self.slots[key] = a
        return a

    def asts(self, sps):
        return [self.ast(s) for s in sps]

    def _resolve(self, ref, live):
        """handle reference: int (index among live handles, modulo; negative = counted from the most recent) or
        {"h_var": name, "h": fallback}: the most recent live part returned by split() whose solver knows variable name"""
        if isinstance(ref, dict):
            if not self.dry:
                for x in reversed(live):
                    if x.origin == "split":
                        try:
                            if ref["h_var"] in x.solver.variables:
                                return x
                        except Exception:  # noqa: BLE001
                            pass
            ref = ref.get("h", 0)
        return live[ref % len(live)]

    def H(self, op):
        live = [h for h in self.handles if h.alive]
        if not live:
            raise _Skip("no handle")
        return self._resolve(op.get("h", 0), live)

    def new_solver(self, cls, kw):
        cl = self.cl
        kw = dict(kw or {})
        if cls == "SolverReplacementVSA":
            return cl.SolverReplacement(cl.SolverVSA(), complex_auto_replace=True, replace_constraints=True)
        return getattr(cl, cls)(**kw)

    def mode_for(self, h, op):
        if h.cls in APPROX_CLASSES or h.cls == "SolverReplacementVSA":
            return "contain"
        if h.cls == "SolverHybrid":
            if op.get("exact") is False:
                return "contain"
            if h.kw.get("approximate_first") and op.get("exact") is None and op["op"] in ("eval", "batch_eval") and op.get("n", 0) > 2:
                return "contain"
        return h.mode

    # ------------------------------------------------------------------ calling claripy
    def call(self, fn, *a, **k):
        try:
            return ("ok", fn(*a, **k))
        except Violation:
            raise  # raised by a monitor of ours below claripy (e.g. the context-confinement monitor)
        except self.errors.UnsatError as e:
            return ("unsat", e)
        except KeyboardInterrupt as e:
            return ("exc", e)
        except Exception as e:  # noqa: BLE001
            if self.seam is not None and self.seam.op_gave_up and isinstance(e, self.errors.ClaripyError):
                # Z3 itself gave up under the resource budget of this phase and claripy reported it as an error: the
                # operation has no answer to judge (what the solver answers afterwards is judged as usual)
                raise _GaveUp from None
            return ("exc", e)

    def exc_detail(self, e):
        return {"type": type(e).__name__, "msg": str(e)[:300], "site": _claripy_frame(e.__traceback__),
                "is_claripy_error": isinstance(e, self.errors.ClaripyError)}

    def unexpected(self, h, op, e, what="unexpected-exception"):
        raise Violation(what, {"h": self.handles.index(h), "cls": h.cls, "op": op["op"], "exc": self.exc_detail(e)})

    def bad(self, clause, h, op, **kw):
        d = {"h": self.handles.index(h) if h is not None else None, "cls": h.cls if h is not None else None,
             "op": op["op"]}
        d.update(kw)
        raise Violation(clause, d)

    def qkw(self, op, extras_ast):
        k = {}
        if extras_ast is not None and (extras_ast or op.get("pass_empty_extra")):
            k["extra_constraints"] = tuple(extras_ast) if not op.get("extra_as_list") else list(extras_ast)
        if op.get("exact") is not None:
            k["exact"] = op["exact"]
        return k

    # ------------------------------------------------------------------ main loop
    def run(self):
        ops = self.rec["ops"]
        faults = self.rec.get("faults") or []
        if self.seam is not None:
            for f in faults:
                self.seam.plan[(f["op"], f["nth"])] = (f["kind"], f.get("phase", "early"))
        for idx, op in enumerate(ops):
            if idx < self.start_at:
                continue
            if self.dry and op["op"] not in STRUCTURAL:
                continue
            if self.seam is not None:
                self.seam.begin_op(idx)
            self.used_specs = []
            self.cur_idx = idx
            fired_before = len(self.seam.fired) if self.seam is not None else 0
            try:
                ans = getattr(self, "op_" + op["op"])(op)
            except NoVerdict:
                ans = ["noverdict"]
                self.stats["noverdict"] = self.stats.get("noverdict", 0) + 1
            except _GaveUp:
                ans = ["z3-gave-up"]
                self.stats["z3_gave_up_ops"] = self.stats.get("z3_gave_up_ops", 0) + 1
            except _Skip as e:
                ans = ["skip", str(e)]
                self.stats["skipped"] += 1
            except _Unbuildable as e:
                ans = ["unbuildable", str(e)[:80]]
                self.stats["unbuildable"] += 1
            except _Forwarded as v:
                self.note(idx, op, ["VIOLATION-IN-FRESH-PROCESS", v.clause])
                v.detail.setdefault("specs", [])
                raise Violation(v.clause, v.detail) from None
            except Violation as v:
                v.detail["op_index"] = idx
                v.detail["fault_fired"] = (self.seam.fired[fired_before:] if self.seam is not None else [])
                v.detail["specs"] = self.used_specs
                self.note(idx, op, ["VIOLATION", v.clause])
                raise
            self.stats["ops"] += 1
            if self.seam is not None and self.seam.op_checks == 0 and op["op"] in QUERY_OPS and isinstance(ans, list) and \
                    ans and ans[0] in ("sat", "vals", "tups", "opt", "sol"):
                self.stats["cache_answers"] = self.stats.get("cache_answers", 0) + 1
            if getattr(self, "finished_elsewhere", False):
                self.note(idx, op, ans)
                break
            if not self.dry:
                self._snapshot_held()
            if "same_as" in op:
                self.check_same_as(idx, op, ans)
            if self.seam is not None and self.seam.op_checks:
                self.checks_per_op[idx] = self.seam.op_checks
            self.note(idx, op, ans)
        if self.seam is not None:
            self.stats["checks"] = self.seam.total
            self.stats["faults_fired"] = len(self.seam.fired)

    def _snapshot_held(self):
        """tracked solvers: remember what the public constraint list shows after every operation.  claripy's own
        simplify() rewrites the constraints and re-asserts the rewritten forms as the tracked assertions, so a core can
        name a form the solver held at SOME time (e.g. `c == 0` for `c + d == 0, d == 0`) even after a later simplify()
        has replaced the list again"""
        for h in self.handles:
            if h.alive and h.solver is not None and (h.kw or {}).get("track"):
                try:
                    for c in h.solver.constraints:
                        h.held.setdefault(c.hash(), c)
                        if getattr(c, "op", None) == "And":
                            for x in c.args:
                                h.held.setdefault(x.hash(), x)
                except Exception:  # noqa: BLE001
                    pass

    DETERMINED = {"sat", "opt", "sol", "unsat-error"}

    def check_same_as(self, idx, op, ans):
        """C18 twin clause: an unpickled solver must give the same *determined* answers as the original (sat, optimum,
        solution, exhaustive evals as sets, UnsatError); which model Z3 picks for an under-determined eval is not part
        of the contract."""
        prev = self.by_idx.get(op["same_as"])
        if prev is None:
            return
        a = json.loads(json.dumps(ans, default=_jsonable))
        kind_a, kind_b = a[0], prev[0]
        det = lambda x, o: x[0] in self.DETERMINED or (x[0] in ("vals", "tups") and len(x[1]) < o.get("n", 0))  # noqa: E731
        other = self.rec["ops"][op["same_as"]]
        no = (["unsat-error"], ["sol", False], ["sat", False])  # three ways of saying "no" on an unsatisfiable set
        if a in no and prev in no:
            return
        if det(a, op) and det(prev, other) and a != prev:
            h = self.H(op)
            self.bad("twin-answers-differ", h, op, original=prev, twin=a, same_as=op["same_as"])

    def note(self, idx, op, ans):
        s = json.dumps([idx, op["op"], ans], sort_keys=True, default=_jsonable)
        self.trace.update(s.encode())
        j = json.loads(s)
        self.answers.append(j)
        self.by_idx[idx] = j[2]

    def digest(self):
        return self.trace.hexdigest()[:16]

    # ------------------------------------------------------------------ fault-aware wrapper
    def faulted(self, idx):
        """faults that fired during the current op"""
        if self.seam is None:
            return []
        return [f for f in self.seam.fired if f[0] == idx]

    def check_faulted(self, h, op, res):
        """C17 clause 1: an operation during which the backend gave up must raise a claripy error."""
        fired = self.faulted(self.cur_idx)
        if not fired:
            return False
        kind = fired[-1][2]
        st, val = res
        if st == "unsat":
            # UnsatError *is* a claripy error, but it is an answer ("unsatisfiable"), not a failure report.
            self.bad("fault-answered", h, op, answer="UnsatError", fired=fired)
        if st == "ok":
            self.bad("fault-answered", h, op, answer=_jsonable(val), fired=fired)
        if isinstance(val, KeyboardInterrupt):
            if kind == "interrupt":
                return True
            self.bad("fault-wrong-exception", h, op, exc=self.exc_detail(val), fired=fired)
        if not isinstance(val, self.errors.ClaripyError):
            self.bad("fault-wrong-exception", h, op, exc=self.exc_detail(val), fired=fired)
        return True

    # ------------------------------------------------------------------ ops: lifecycle
    def op_new(self, op):
        cls = op["cls"]
        kw = op.get("kw") or {}
        s = None if self.dry else self.new_solver(cls, kw)
        mode = "contain" if (cls in APPROX_CLASSES or cls == "SolverReplacementVSA") else "exact"
        lineage = []
        for n, dom in self.domains.items():
            # part of what "a new solver" means in a string history: every string variable is given its finite domain
            c = ["bor"] + [["seq", ["var", n], ["sconst", d]] for d in dom] if len(dom) > 1 else ["seq", ["var", n], ["sconst", dom[0]]]
            lineage.append(c)
            if s is not None:
                s.add(self.ast(c))
        self.handles.append(Handle(s, self.ref0(), cls, kw, lineage, mode, "new"))
        return ["h", len(self.handles) - 1]

    def op_branch(self, op):
        h = self.H(op)
        pi = self.handles.index(h)
        if self.dry:
            nh = Handle(None, h.ref.copy(), h.cls, h.kw, list(h.lineage), h.mode, "branch", parent=pi)
        else:
            st, val = self.call(h.solver.branch)
            if st != "ok":
                self.unexpected(h, op, val)
            nh = Handle(val, h.ref.copy(), h.cls, h.kw, list(h.lineage), h.mode, "branch", parent=pi)
        nh.added = list(h.added)
        nh.pins = dict(h.pins)
        nh.expansions = list(h.expansions)
        nh.held = dict(h.held)
        nh.conj = h.conj
        nh.noinval = set(h.noinval)
        self.handles.append(nh)
        return ["h", len(self.handles) - 1]

    def op_drop(self, op):
        h = self.H(op)
        if sum(1 for x in self.handles if x.alive) <= 1:
            raise _Skip("last handle")
        h.alive = False
        h.solver = None
        return ["dropped"]

    def op_pickle(self, op):
        h = self.H(op)
        proto = op.get("proto", pickle.HIGHEST_PROTOCOL)
        mode = op.get("mode", "replace")
        s2 = None
        if not self.dry:
            try:
                blob = pickle.dumps(h.solver, proto)
                s2 = pickle.loads(blob)
            except Exception as e:  # noqa: BLE001
                self.unexpected(h, op, e, "pickle-failed")
        if mode == "replace":
            h.solver = s2
            return ["replaced"]
        nh = Handle(s2, h.ref.copy(), h.cls, h.kw, list(h.lineage), h.mode, "pickle", parent=h.parent)
        nh.added = list(h.added)
        nh.pins = dict(h.pins)
        nh.held = dict(h.held)
        nh.conj = h.conj
        self.handles.append(nh)
        return ["h", len(self.handles) - 1]

    def op_forget(self, op):
        key = json.dumps(op["e"])
        self.slots.pop(key, None)
        return ["ok"]

    def op_forget_all(self, op):
        self.slots.clear()
        return ["ok"]

    def op_gc(self, op):
        gc.collect()
        return ["ok"]

    def op_backend_downsize(self, op):
        getattr(self.cl.backends, op.get("which", "z3")).downsize()
        return ["ok"]

    # ------------------------------------------------------------------ ops: mutation
    def _note_pin(self, h, c):
        if c[0] == "eq":
            for a, b in ((c[1], c[2]), (c[2], c[1])):
                if a[0] == "var" and b[0] == "const":
                    h.pins.setdefault(a[1], b[1] & ((1 << b[2]) - 1))
        elif c[0] == "var":
            h.pins.setdefault(c[1], 1)
        elif c[0] == "bnot" and c[1][0] == "var":
            h.pins.setdefault(c[1][1], 0)

    def _note_pin_ast(self, h, a):
        """same, on the expression claripy built (it may have simplified `0 ^ b == 0` to `b == 0`)"""
        op = getattr(a, "op", None)
        if op == "__eq__":
            for x, y in (a.args, a.args[::-1]):
                if getattr(x, "op", None) == "BVS" and getattr(y, "op", None) == "BVV" and x.args[0] in self.variables:
                    h.pins.setdefault(x.args[0], int(y.concrete_value))
        elif op == "BoolS" and a.args[0] in self.variables:
            h.pins.setdefault(a.args[0], 1)
        elif op == "Not" and getattr(a.args[0], "op", None) == "BoolS" and a.args[0].args[0] in self.variables:
            h.pins.setdefault(a.args[0].args[0], 0)

    def pinned_value(self, h, e):
        """value of e if all its variables are pinned by literal `var == const` constraints added to a replacement
        frontend (which by design answers such queries without consulting the solver), else None"""
        if h.cls not in ("SolverReplacement", "SolverReplacementVSA") or not isinstance(e, list):
            return None
        vs = S.spec_vars(e)
        if not self.dry:
            try:
                # what claripy built may not mention every variable of the spec (If(c, a, a) is a)
                vs = set(self.ast(e).variables)
            except _Unbuildable:
                pass
        if not all(v in h.pins for v in vs):
            return None
        f = S.compile_spec(e, self.variables, self.order)
        return int(f(*[h.pins.get(n, 0) for n in self.order]))

    def resolved_value(self, h, e):
        """Replacement frontends answer a query whose expression their replacements resolve to a constant without
        consulting the solver (ConcreteHandlerMixin on top of ReplacementFrontend._concrete_value), by design.  When the
        reference says 'unsatisfiable with these extra constraints', such an answer is vacuous rather than wrong.
        The expression counts as resolved if literal `var == const` constraints pin all its variables, or if it takes
        exactly one value over the solver's own models."""
        if h.cls not in ("SolverReplacement", "SolverReplacementVSA") or not isinstance(e, list):
            return None
        pv = self.pinned_value(h, e)
        if pv is not None:
            return pv
        if h.ref.kind != "enum":
            return None
        V = h.ref.values(e)
        if len(V) == 1:
            return next(iter(V))
        return None

    def op_add(self, op):
        h = self.H(op)
        self.used_specs = list(op["cs"]) + h.lineage
        for c in op["cs"]:
            self._note_pin(h, c)
        if self.dry:
            for c in op["cs"]:
                h.ref.add(c)
                h.lineage.append(c)
            return ["added"]
        cs = self.asts(op["cs"])
        for a in cs:
            self._note_pin_ast(h, a)
        arg = cs if (len(cs) != 1 or op.get("as_list", True)) else cs[0]
        res = self.call(h.solver.add, arg)
        st, val = res
        # the reference takes the constraints whatever claripy says: add has no answer of its own
        for c, a in zip(op["cs"], cs):
            h.ref.add(c)
            h.lineage.append(c)
            h.added.append(a.hash())
            if getattr(a, "op", None) == "And":
                h.added.extend(x.hash() for x in a.args)
        self.stats["adds"] += 1
        if self.check_faulted(h, op, res):
            return ["fault-raised", type(val).__name__]
        if st != "ok":
            self.unexpected(h, op, val)
        return ["added"]

    def op_add_replacement(self, op):
        """SolverReplacement.add_replacement(var, const): on a variable that no constraint mentions it means var == const"""
        h = self.H(op)
        n, v = op["var"], op["value"]
        w = self.variables[n]
        c = ["eq", ["var", n], ["const", v, w]]
        h.ref.add(c)
        h.lineage.append(c + ["by-add-replacement"])
        h.pins.setdefault(n, v)
        if op.get("invalidate_cache") is False:
            h.noinval.add(n)
        if self.dry:
            return ["added"]
        if not hasattr(h.solver, "add_replacement"):
            raise _Skip("not a replacement frontend")
        k = {"invalidate_cache": False} if op.get("invalidate_cache") is False else {}
        res = self.call(h.solver.add_replacement, self.ast(["var", n]), self.cl.BVV(v, w), **k)
        if res[0] != "ok":
            self.unexpected(h, op, res[1])
        return ["replaced"]

    def op_remove_replacement(self, op):
        """SolverReplacement.remove_replacements([var]) for a replacement the user set with add_replacement() (it is not
        backed by a constraint): the variable is free again"""
        h = self.H(op)
        n = op["var"]
        if not h.conj:
            raise _Skip("model set is not the conjunction of the lineage")
        idx = [i for i, c in enumerate(h.lineage) if isinstance(c, list) and c[-1] == "by-add-replacement" and c[1] == ["var", n]]
        if not idx:
            raise _Skip("no such replacement")
        # a constraint added while the replacement was active reached the actual solver with the variable already replaced:
        # removing the replacement does not bring the variable back there.  Only the case without such constraints has an
        # unambiguous meaning (the variable is free again; what was memoised for compound terms must go with it).
        if any(n in S.spec_vars(c) for c in h.lineage[idx[0] + 1:]):
            raise _Skip("a later constraint mentions the variable")
        keep = [c for i, c in enumerate(h.lineage) if i not in idx]
        h.lineage = keep
        h.pins.pop(n, None)
        ref = self.ref0()
        for c in keep:
            ref.add(c[:3] if c[-1] == "by-add-replacement" else c)
        h.ref = ref
        if self.dry:
            return ["removed"]
        if not hasattr(h.solver, "remove_replacements"):
            raise _Skip("not a replacement frontend")
        res = self.call(h.solver.remove_replacements, {self.ast(["var", n]).hash()})
        if res[0] != "ok":
            self.unexpected(h, op, res[1])
        return ["removed"]

    def op_simplify(self, op):
        h = self.H(op)
        self.used_specs = list(h.lineage)
        res = self.call(h.solver.simplify)
        if self.check_faulted(h, op, res):
            return ["fault-raised"]
        if res[0] != "ok":
            self.unexpected(h, op, res[1])
        return ["ok"]

    def op_downsize(self, op):
        h = self.H(op)
        res = self.call(h.solver.downsize)
        if res[0] != "ok":
            self.unexpected(h, op, res[1])
        return ["ok"]

    # ------------------------------------------------------------------ ops: queries
    def _prep(self, op, h, *specs):
        extras = op.get("extra") or []
        self.used_specs = [s for s in specs if isinstance(s, list)] + list(extras) + h.lineage
        if any(isinstance(c, list) and c[-1] == "by-add-replacement" for c in h.lineage):
            # A replacement the user set with add_replacement() is not a constraint of the actual solver.  Where applying it
            # would fold a division by zero, claripy leaves the term unreplaced and the actual solver sees the variable
            # free: "var == const" (this harness's reading of add_replacement) has no defined meaning there - no verdict.
            def has_div(sp):
                return isinstance(sp, list) and bool(sp) and (sp[0] in ("udiv", "urem", "sdiv", "srem") or any(has_div(x) for x in sp[1:]))

            if any(has_div(s) for s in list(specs) + list(extras)):
                raise NoVerdict
            # add_replacement(..., invalidate_cache=False): the caller opted out of invalidating what was memoised for
            # compound terms, so a compound term over such a variable may still be answered from its old rewrite - that is
            # what the flag says; only the bare variable is judged
            if h.noinval and any(isinstance(s, list) and s[0] != "var" and (S.spec_vars(s) & h.noinval) for s in list(specs) + list(extras)):
                raise NoVerdict
        return extras, self.asts(extras)

    def op_sat(self, op):
        h = self.H(op)
        extras, ex = self._prep(op, h)
        res = self.call(h.solver.satisfiable, **self.qkw(op, ex))
        self.stats["queries"] += 1
        if self.check_faulted(h, op, res):
            return ["fault-raised"]
        st, val = res
        if st == "exc":
            self.unexpected(h, op, val)
        exp = h.ref.sat(extras)
        mode = self.mode_for(h, op)
        if st == "unsat":
            if exp:
                self.bad("spurious-unsat", h, op, expected_sat=True)
            return ["unsat-error"]
        if exp is None:
            return ["sat", bool(val), "noverdict"]
        if mode == "exact":
            if bool(val) != exp:
                self.bad("wrong-sat", h, op, got=bool(val), expected=exp, extra=extras)
        else:
            if exp and not val:
                self.bad("approx-unsat-on-sat", h, op, got=bool(val), expected=exp, extra=extras)
        return ["sat", bool(val)]

    def _nonsymbolic(self, a):
        return not getattr(a, "symbolic", True)

    def op_eval(self, op):
        h = self.H(op)
        e = op["e"]
        n = op["n"]
        extras, ex = self._prep(op, h, e)
        a = self.ast(e)
        res = self.call(h.solver.eval, a, n, **self.qkw(op, ex))
        self.stats["queries"] += 1
        if self.check_faulted(h, op, res):
            return ["fault-raised"]
        st, val = res
        mode = self.mode_for(h, op)
        if st == "exc":
            if mode == "contain" and isinstance(val, self.errors.ClaripyFrontendError):
                return ["frontend-error"]
            self.unexpected(h, op, val)
        sat = h.ref.sat(extras)
        if st == "unsat":
            self.stats["unsat_answers"] += 1
            if sat:
                self.bad("spurious-unsat", h, op, e=e, extra=extras)
            return ["unsat-error"]
        vals = [_pv(v) for v in val]
        if sat is False and self._nonsymbolic(a):
            return ["concrete", vals]
        if sat is False and h.cls in ("SolverReplacement", "SolverReplacementVSA"):
            return ["vacuous", vals]
        if len(vals) > n:
            self.bad("too-many-results", h, op, e=e, n=n, got=vals)
        if len(set(vals)) != len(vals):
            self.bad("duplicate-results", h, op, e=e, n=n, got=vals)
        if mode == "exact":
            badv = h.ref.infeasible_values(e, vals, extras)
            if badv:
                self.bad("infeasible-value", h, op, e=e, n=n, got=vals, infeasible=badv, extra=extras)
        if len(vals) < n:
            miss = h.ref.missing_value(e, vals, extras)
            if miss is not None:
                self.bad("incomplete-eval", h, op, e=e, n=n, got=vals, missing=miss, extra=extras)
        if len(vals) < n and not extras and vals and S.width_of(e, self.variables) > 0:
            w_ = S.width_of(e, self.variables)
            h.expansions.append(["bor"] + [["eq", e, ["const", v, w_]] for v in vals] if len(vals) > 1 else ["eq", e, ["const", vals[0], w_]])
        return ["vals", sorted(vals) if len(vals) < n else vals]

    def op_batch_eval(self, op):
        h = self.H(op)
        es = op["es"]
        n = op["n"]
        extras, ex = self._prep(op, h, *es)
        as_ = self.asts(es)
        res = self.call(h.solver.batch_eval, as_, n, **self.qkw(op, ex))
        self.stats["queries"] += 1
        if self.check_faulted(h, op, res):
            return ["fault-raised"]
        st, val = res
        mode = self.mode_for(h, op)
        if st == "exc":
            if mode == "contain" and isinstance(val, self.errors.ClaripyFrontendError):
                return ["frontend-error"]
            self.unexpected(h, op, val)
        sat = h.ref.sat(extras)
        if st == "unsat":
            if sat:
                self.bad("spurious-unsat", h, op, es=es, extra=extras)
            return ["unsat-error"]
        tups = [tuple(_pv(x) for x in t) for t in val]
        if sat is False and all(self._nonsymbolic(a) for a in as_):
            return ["concrete", tups]
        if sat is False and h.cls in ("SolverReplacement", "SolverReplacementVSA"):
            return ["vacuous", tups]
        if len(tups) > n:
            self.bad("too-many-results", h, op, es=es, n=n, got=tups)
        if len(set(tups)) != len(tups):
            self.bad("duplicate-results", h, op, es=es, n=n, got=tups)
        if mode == "exact":
            badt = h.ref.infeasible_tuples(es, tups, extras)
            if badt:
                self.bad("infeasible-value", h, op, es=es, n=n, got=tups, infeasible=badt, extra=extras)
        if len(tups) < n:
            miss = h.ref.missing_tuple(es, tups, extras)
            if miss is not None:
                self.bad("incomplete-eval", h, op, es=es, n=n, got=tups, missing=miss, extra=extras)
        return ["tups", sorted(tups) if len(tups) < n else tups]

    def _minmax(self, op, is_max):
        h = self.H(op)
        e = op["e"]
        signed = bool(op.get("signed"))
        extras, ex = self._prep(op, h, e)
        a = self.ast(e)
        k = self.qkw(op, ex)
        if signed or op.get("pass_signed"):
            k["signed"] = signed
        res = self.call(h.solver.max if is_max else h.solver.min, a, **k)
        self.stats["queries"] += 1
        if self.check_faulted(h, op, res):
            return ["fault-raised"]
        st, val = res
        mode = self.mode_for(h, op)
        if st == "exc":
            if mode == "contain" and isinstance(val, self.errors.ClaripyFrontendError):
                return ["frontend-error"]
            self.unexpected(h, op, val)
        w = S.width_of(e, self.variables)
        opt = h.ref.optimum(e, signed, is_max, extras)
        if st == "unsat":
            self.stats["unsat_answers"] += 1
            if opt is not None:
                self.bad("spurious-unsat", h, op, e=e, signed=signed, extra=extras)
            return ["unsat-error"]
        if opt is None and mode == "contain":
            return ["approx-on-unsat", repr(val)[:20]]  # nothing exists that could have been excluded
        if not isinstance(val, int) or isinstance(val, bool):
            self.bad("optimum-not-an-integer", h, op, e=e, signed=signed, got=repr(val)[:60])
        r = int(val)
        if opt is None and h.cls in ("SolverReplacement", "SolverReplacementVSA"):
            # replacement frontends resolve expressions through their replacements without consulting the solver, by
            # design; on an unsatisfiable constraint set whatever comes back is vacuous (satisfiable() is still exact)
            return ["vacuous", r]
        if opt is None:
            if self._nonsymbolic(a):
                return ["concrete", r]
            pv = self.resolved_value(h, e)
            if pv is not None and r % (1 << w) == pv:
                return ["pinned", r]
            if mode == "contain":
                return ["approx-on-unsat", r]
            self.bad("answer-on-unsat", h, op, e=e, signed=signed, got=r, extra=extras)
        if not (-(1 << (w - 1)) <= r < (1 << w)):
            self.bad("optimum-out-of-range", h, op, e=e, signed=signed, got=r)
        pat = r % (1 << w)
        if mode == "exact":
            if pat != opt:
                self.bad("wrong-optimum", h, op, e=e, signed=signed, is_max=is_max, got=r, expected=opt, extra=extras,
                         has_extra=bool(extras))
        else:
            sk = (lambda v: v - (1 << w) if v >> (w - 1) else v) if signed else (lambda v: v)
            if is_max and sk(pat) < sk(opt) or (not is_max) and sk(pat) > sk(opt):
                self.bad("approx-optimum-excludes", h, op, e=e, signed=signed, is_max=is_max, got=r, true_opt=opt,
                         extra=extras)
        if not extras:
            cmpop = ("sle" if signed else "ule") if is_max else ("sge" if signed else "uge")
            h.expansions.append([cmpop, e, ["const", pat, w]])
        return ["opt", pat]

    def op_min(self, op):
        return self._minmax(op, False)

    def op_max(self, op):
        return self._minmax(op, True)

    def op_solution(self, op):
        h = self.H(op)
        e = op["e"]
        v = op["v"]
        extras, ex = self._prep(op, h, e, v)
        a = self.ast(e)
        va = self.ast(v) if isinstance(v, list) else v
        res = self.call(h.solver.solution, a, va, **self.qkw(op, ex))
        self.stats["queries"] += 1
        if self.check_faulted(h, op, res):
            return ["fault-raised"]
        st, val = res
        mode = self.mode_for(h, op)
        if st == "exc":
            if mode == "contain" and isinstance(val, self.errors.ClaripyFrontendError):
                return ["frontend-error"]
            self.unexpected(h, op, val)
        sat = h.ref.sat(extras)
        if st == "unsat":
            if sat:
                self.bad("spurious-unsat", h, op, e=e, v=v, extra=extras)
            return ["unsat-error"]
        exp = h.ref.feasible_eq(e, v, extras)
        got = bool(val)
        if sat is False and self._nonsymbolic(a) and (not isinstance(v, list) or self._nonsymbolic(va)):
            return ["concrete", got]
        if sat is False and h.cls in ("SolverReplacement", "SolverReplacementVSA"):
            return ["vacuous", got]
        if mode == "exact":
            if got != exp:
                self.bad("wrong-solution", h, op, e=e, v=v, got=got, expected=exp, extra=extras)
        elif exp and not got:
            self.bad("approx-solution-excludes", h, op, e=e, v=v, got=got, expected=exp, extra=extras)
        if not got and not extras and isinstance(v, int) and S.width_of(e, self.variables) > 0:
            h.expansions.append(["ne", e, ["const", v, S.width_of(e, self.variables)]])
        return ["sol", got]

    def _truth(self, op, want_true):
        h = self.H(op)
        e = op["e"]
        extras, ex = self._prep(op, h, e)
        a = self.ast(e)
        fn = h.solver.is_true if want_true else h.solver.is_false
        res = self.call(fn, a, **self.qkw(op, ex))
        self.stats["queries"] += 1
        if self.check_faulted(h, op, res):
            return ["fault-raised"]
        st, val = res
        if st == "unsat":
            if h.ref.sat(extras):
                self.bad("spurious-unsat", h, op, e=e, extra=extras)
            return ["unsat-error"]
        if st == "exc":
            self.unexpected(h, op, val)
        if val is True or val == 1 and isinstance(val, bool):
            ok = h.ref.holds_all(e, extras) if want_true else h.ref.fails_all(e, extras)
            if ok is False:
                self.bad("wrong-truth-claim", h, op, e=e, claim=("is_true" if want_true else "is_false"), extra=extras)
        return ["truth", bool(val)]

    def op_is_true(self, op):
        return self._truth(op, True)

    def op_is_false(self, op):
        return self._truth(op, False)

    # module-level truth checks (C10): a True claim must hold on ALL assignments
    def _gtruth(self, op, want_true):
        e = op["e"]
        self.used_specs = [e]
        a = self.ast(e)
        how = op.get("how", "module")
        if how == "module":
            fn = (self.cl.is_true if want_true else self.cl.is_false)
            res = self.call(fn, a)
        else:
            res = self.call(a.is_true if want_true else a.is_false)
        self.stats["queries"] += 1
        st, val = res
        if st != "ok":
            raise Violation("unexpected-exception", {"h": None, "cls": None, "op": op["op"], "exc": self.exc_detail(val)})
        if val is True:
            r0 = self.ref0()
            ok = r0.holds_all(e) if want_true else r0.fails_all(e)
            if not ok:
                raise Violation("wrong-global-truth-claim", {"h": None, "cls": None, "op": op["op"], "e": e, "how": how})
        return ["truth", bool(val)]

    def op_g_is_true(self, op):
        return self._gtruth(op, True)

    def op_g_is_false(self, op):
        return self._gtruth(op, False)


    # ------------------------------------------------------------------ ops: merge / combine / split (C15)
    def _others(self, op, h):
        live = [x for x in self.handles if x.alive]
        out = []
        for j in op.get("others", []):
            o = self._resolve(j, live)
            if o is h or o in out:
                continue
            out.append(o)
        return out

    def op_merge(self, op):
        h = self.H(op)
        if h.ref.kind != "enum":
            raise _Skip("needs the enumeration reference")
        others = self._others(op, h)
        if not others:
            raise _Skip("no others")
        conds = op["conds"][:1 + len(others)]
        if len(conds) != 1 + len(others):
            raise _Skip("conds mismatch")
        anc = None
        if op.get("ancestor") is not None:
            live = [x for x in self.handles if x.alive]
            anc = self._resolve(op["ancestor"], live)
            # only a true common ancestor may be passed
            for x in [h, *others]:
                if not self._is_ancestor(anc, x):
                    raise _Skip("not an ancestor")
        group = [h, *others]
        if len({x.cls for x in group}) != 1 or (anc is not None and anc.cls != h.cls):
            raise _Skip("mixed classes")
        self.used_specs = list(conds) + [c for x in group for c in x.lineage] + (anc.lineage if anc else [])
        # reference
        uni = self.ref0().universe
        fs = [S.compile_spec(c, self.variables, self.order) for c in conds]
        if anc is None:
            keep = set()
            for x, f in zip(group, fs):
                keep.update(m for m in x.ref.M if f(*m))
            M = [m for m in uni if m in keep]
            lineage = [c for x in group for c in x.lineage] + list(conds)
        else:
            M = [m for m in anc.ref.M if any(f(*m) for f in fs)]
            lineage = list(anc.lineage) + list(conds)
        newref = self.ref0().with_models(M)
        if self.dry:
            nh = Handle(None, newref, h.cls, h.kw, lineage, h.mode, "merge")
            nh.conj = False
            self.handles.append(nh)
            return ["h", len(self.handles) - 1]
        ca = self.asts(conds)
        k = {}
        if anc is not None:
            k["common_ancestor"] = anc.solver
        res = self.call(h.solver.merge, [o.solver for o in others], ca, **k)
        st, val = res
        if st != "ok":
            self.unexpected(h, op, val)
        merged = val[1]
        nh = Handle(merged, newref, h.cls, h.kw, lineage, h.mode, "merge")
        nh.conj = False
        self.handles.append(nh)
        return ["h", len(self.handles) - 1, bool(val[0])]

    def _is_ancestor(self, anc, x):
        seen = 0
        while x is not None and seen < 100:
            if x is anc:
                return True
            x = self.handles[x.parent] if x.parent is not None else None
            seen += 1
        return False

    def op_combine(self, op):
        h = self.H(op)
        if h.ref.kind != "enum":
            raise _Skip("needs the enumeration reference")
        others = self._others(op, h)
        if not others:
            raise _Skip("no others")
        group = [h, *others]
        if len({x.cls for x in group}) != 1:
            raise _Skip("mixed classes")
        self.used_specs = [c for x in group for c in x.lineage]
        keep = set(h.ref.M)
        for o in others:
            keep &= set(o.ref.M)
        M = [m for m in h.ref.M if m in keep]
        lineage = [c for x in group for c in x.lineage]
        newref = self.ref0().with_models(M)
        if self.dry:
            self.handles.append(Handle(None, newref, h.cls, h.kw, lineage, h.mode, "combine"))
            return ["h", len(self.handles) - 1]
        res = self.call(h.solver.combine, [o.solver for o in others])
        st, val = res
        if st != "ok":
            self.unexpected(h, op, val)
        nh = Handle(val, newref, h.cls, h.kw, lineage, h.mode, "combine")
        nh.conj = all(x.conj for x in group)
        for x in group:
            for k, v in x.pins.items():
                nh.pins.setdefault(k, v)
            nh.added.extend(x.added)
        self.handles.append(nh)
        return ["h", len(self.handles) - 1]

    def op_split(self, op):
        h = self.H(op)
        if h.ref.kind != "enum":
            raise _Skip("needs the enumeration reference")
        if self.dry:
            raise HarnessError("split cannot be replayed dry")
        self.used_specs = list(h.lineage)
        try:
            before = self._conjunct_hashes(h.solver.constraints, True)
        except Exception as e:  # noqa: BLE001
            self.unexpected(h, op, e)
        res = self.call(h.solver.split)
        st, val = res
        if st != "ok":
            self.unexpected(h, op, val)
        parts = list(val)
        # (1) variable sets pairwise disjoint
        seen = {}
        for i, p in enumerate(parts):
            for v in p.variables:
                if v in seen:
                    self.bad("split-shares-variable", h, op, variable=v, parts=[seen[v], i])
                seen[v] = i
        # (2) every conjunct of s exactly once (a part may hold further conjuncts that s.constraints does not list,
        # e.g. a re-added constraint the composite deduplicated in its own list: joint equivalence is decided in (3))
        after = []
        for p in parts:
            after.extend(self._conjunct_hashes(p.constraints, True))
        cnt = {}
        for x in after:
            cnt[x] = cnt.get(x, 0) + 1
        cb = {}
        for x in before:
            cb[x] = cb.get(x, 0) + 1
        missing = [x for x in cb if cnt.get(x, 0) == 0]
        dup = [x for x in cb if cnt.get(x, 0) > cb[x]]
        if missing or dup:
            self.bad("split-conjuncts-differ", h, op, before=len(before), after=len(after), missing=len(missing),
                     duplicated=len(dup))
        # (3) jointly equivalent: each part becomes a handle whose reference is the projection of M on its variables
        out = []
        # The parts of a satisfiable solver are judged against the projections of its model set.  An unsatisfiable solver
        # has no models to project, but split() partitions the constraints by variables, so a part's model set is that of
        # the added constraints over its variables - usable when building no constraint eliminated a variable.
        by_vars = None
        if not h.ref.M and h.conj:
            def conjuncts(c):
                if c[0] == "band":
                    for x in c[1:]:
                        yield from conjuncts(x)
                else:
                    yield c

            try:
                cj = [x for c in h.lineage for x in conjuncts(c)]
                # (split() separates the conjuncts of an And; a conjunct whose construction eliminated a variable or folded
                # to a constant would not be where its spec says it is)
                if all(set(self.ast(c).variables) == S.spec_vars(c) and self.ast(c).op != "And" for c in cj):
                    by_vars = [(S.spec_vars(c), S.compile_spec(c, self.variables, self.order)) for c in cj]
            except Exception:  # noqa: BLE001
                by_vars = None
        if not h.ref.M:
            # An unsatisfiable solver has no models to project and may have collapsed to `False` altogether (its own
            # simplify()), so no part can be given a reference of its own (tried: deriving it from the added constraints
            # over the part's variables raised false alarms).  What the statement demands jointly: the parts together are
            # unsatisfiable, i.e. at least one of them is.
            by_vars = None
            verdicts = []
            for p in parts:
                st, val = self.call(p.satisfiable)
                if st == "exc":
                    self.unexpected(h, op, val)
                verdicts.append(False if st == "unsat" else bool(val))
            falses = any((not c.symbolic) and c.is_false() for p in parts for c in p.constraints)
            # (exact frontends only: an approximate one may call an unsatisfiable set satisfiable)
            if parts and all(verdicts) and not falses and h.mode == "exact" and h.cls not in APPROX_CLASSES:
                self.bad("split-parts-jointly-satisfiable", h, op, parts=len(parts))
        if h.ref.M or by_vars is not None:
            for p in parts:
                pv = [i for i, n in enumerate(self.order) if n in p.variables]
                if h.ref.M:
                    proj = {tuple(m[i] for i in pv) for m in h.ref.M}
                else:
                    if not pv:
                        continue
                    fs = [f for vs, f in by_vars if vs and vs <= set(p.variables)]
                    proj = {tuple(m[i] for i in pv) for m in self.ref0().universe if all(f(*m) for f in fs)}
                M = [m for m in self.ref0().universe if tuple(m[i] for i in pv) in proj]
                # the parts of a hybrid are HybridFrontend objects: for the oracle's choice of mode they are hybrids
                pcls = "SolverHybrid" if h.cls == "SolverHybrid" else type(p).__name__
                nh = Handle(p, self.ref0().with_models(M), pcls, h.kw, list(h.lineage), h.mode, "split")
                nh.added = list(h.added)
                nh.held = dict(h.held)
                nh.expansions = list(h.expansions)
                nh.conj = h.conj
                self.handles.append(nh)
                out.append(len(self.handles) - 1)
                # probe the part right away with assignments of its own variables: members and non-members
                if pv and h.mode == "exact":
                    allp = sorted({tuple(m[i] for i in pv) for m in self.ref0().universe})
                    step = max(1, len(allp) // 10)
                    for asg in allp[::step][:12]:
                        ex = []
                        for i, val in zip(pv, asg):
                            n = self.order[i]
                            w = self.variables[n]
                            ex.append(["eq", ["var", n], ["const", val, w]] if w else (["var", n] if val else ["bnot", ["var", n]]))
                        st, val = self.call(p.satisfiable, extra_constraints=tuple(self.asts(ex)))
                        if st == "exc":
                            self.unexpected(nh, op, val)
                        got = False if st == "unsat" else bool(val)
                        if got != (asg in proj):
                            self.bad("split-part-wrong", nh, op, assignment=ex, got=got, expected=(asg in proj))
        return ["parts", len(parts), out]

    def _conjunct_hashes(self, cons, skip_trivial=False):
        hs = []
        for c in cons:
            for a in (c.args if getattr(c, "op", None) == "And" else (c,)):
                # a conjunct claripy itself knows to be a tautology carries no constraint: whether a solver keeps
                # `<Bool True>` in its list is not part of split()'s contract
                if skip_trivial and self.cl.is_true(a):
                    continue
                hs.append(a.hash())
        return hs

    # ------------------------------------------------------------------ ops: unsat core (C16)
    def op_unsat_core(self, op):
        h = self.H(op)
        if h.ref.kind != "enum":
            raise _Skip("needs the enumeration reference")
        extras = op.get("extra") or []
        self.used_specs = list(h.lineage) + list(extras)
        if self.dry:
            return ["dry"]
        # with extra constraints: the core of (constraints and extras), made of tracked constraints only
        res = self.call(h.solver.unsat_core, **({"extra_constraints": tuple(self.asts(extras))} if extras else {}))
        self.stats["queries"] += 1
        if self.check_faulted(h, op, res):
            return ["fault-raised"]
        st, val = res
        if st != "ok":
            self.unexpected(h, op, val)
        try:
            core = list(val)
        except TypeError:
            self.bad("core-not-a-sequence", h, op, got=repr(val)[:100])
        if h.ref.models(extras):
            if len(core) != 0:
                self.bad("core-nonempty-on-sat", h, op, size=len(core), extra=extras)
            return ["core", 0]
        Base = self.cl.ast.Base
        Bool = self.cl.ast.Bool
        tracked = set(h.added) | set(h.held)
        try:
            tracked.update(self._conjunct_hashes(h.solver.constraints))
            tracked.update(c.hash() for c in h.solver.constraints)
        except Exception:  # noqa: BLE001
            pass
        tables = None
        for el in core:
            if not isinstance(el, Base) or not isinstance(el, Bool):
                self.bad("core-element-not-a-constraint", h, op, element_type=type(el).__name__, size=len(core))
            if el.hash() not in tracked:
                # claripy may hand back a re-abstracted form of an added constraint (`0 >s a` for `a <s 0`, `a == 5` for
                # `10 + a == 15`): accept an element that has the truth table of an added constraint or conjunct
                if tables is None:
                    uni = self.ref0().universe
                    tables = set()
                    def conj(c):
                        yield c
                        if c[0] == "band":
                            for x in c[1:]:
                                yield from conj(x)

                    # ... or of a constraint ConstraintExpansionMixin derived from an earlier answer of this solver
                    for c in list(h.lineage) + list(h.expansions):
                        for cc in conj(c):
                            f = S.compile_spec(cc, self.variables, self.order)
                            tables.add(tuple(bool(f(*m)) for m in uni))
                mine = tuple(self._concrete_truth(el, m) for m in self.ref0().universe)
                if mine not in tables:
                    # ... or of a constraint the solver holds now or has held (what its own simplify() made of the added ones)
                    try:
                        for c in list(h.solver.constraints) + list(h.held.values()):
                            for cc in (c.args if getattr(c, "op", None) == "And" else (c,)):
                                tables.add(tuple(self._concrete_truth(cc, m) for m in self.ref0().universe))
                    except _Skip:
                        raise
                    except Exception:  # noqa: BLE001
                        pass
                if mine not in tables:
                    self.bad("core-element-not-tracked", h, op, element=str(el)[:120], size=len(core))
        # conjunction unsatisfiable: evaluate each element on all assignments through claripy's concrete backend
        if len(core) == 0 and self.ref0().models(extras):
            self.bad("core-empty-on-unsat", h, op, extra=extras)
        alive = self.ref0().models(extras)
        for el in core:
            alive = [m for m in alive if self._concrete_truth(el, m)]
            if not alive:
                break
        if alive:
            self.bad("core-satisfiable", h, op, size=len(core), witness=list(alive[0]))
        return ["core", len(core)]

    def _concrete_truth(self, ast, m):
        cl = self.cl
        rep = {}
        for n, v in zip(self.order, m):
            w = self.variables[n]
            if n not in ast.variables:
                continue
            if w == 0:
                rep[cl.BoolS(n, explicit_name=True).hash()] = cl.BoolV(bool(v))
            else:
                rep[cl.BVS(n, w, explicit_name=True).hash()] = cl.BVV(v, w)
        try:
            r = cl.replace_dict(ast, rep)
            return bool(cl.backends.concrete.eval(r, 1)[0])
        except ZeroDivisionError:
            # SMT-LIB defines division by zero; claripy's concrete backend does not: cannot judge this element here
            raise _Skip("concrete backend cannot evaluate core element (division by zero)") from None

    # ------------------------------------------------------------------ ops: fresh-interpreter restart (C18)
    def op_restart_fresh(self, op):
        """Crash model: only what pickle emits survives.  All live solvers and all slot expressions are pickled, a new
        interpreter with another PYTHONHASHSEED loads them and continues the history; its verdict is ours."""
        import base64
        import os
        import subprocess

        if self.dry:
            return ["dry"]
        live = [h for h in self.handles if h.alive]
        try:
            blob = pickle.dumps({"solvers": [h.solver for h in live], "slots": self.slots}, op.get("proto", pickle.HIGHEST_PROTOCOL))
        except Exception as e:  # noqa: BLE001
            raise Violation("pickle-failed", {"h": None, "cls": None, "op": op["op"], "exc": self.exc_detail(e)}) from None
        env = dict(os.environ)
        env["PYTHONHASHSEED"] = str(op.get("hashseed", 4242))
        env["PYTHONDONTWRITEBYTECODE"] = "1"
        here = os.path.dirname(os.path.dirname(os.path.abspath(__file__)))
        req = json.dumps({"record": self.rec, "at": self.cur_idx, "blob": base64.b64encode(blob).decode()})
        p = subprocess.run(["/venv/bin/python", os.path.join(here, "verif.py"), "_resume"], input=req, capture_output=True,
                           text=True, env=env, cwd=here, timeout=300)
        try:
            res = json.loads(p.stdout.strip().splitlines()[-1])
        except Exception:  # noqa: BLE001
            raise HarnessError(f"resume process failed rc={p.returncode}: {p.stderr[-1500:]}") from None
        self.stats["restarts"] = self.stats.get("restarts", 0) + 1
        for k, v in (res.get("stats") or {}).items():
            if k in ("ops", "queries", "adds", "checks"):
                self.stats[k] = self.stats.get(k, 0) + v
        self.finished_elsewhere = True
        if res.get("status") == "violation":
            v = res["violation"]
            d = dict(v["detail"])
            d["in_fresh_process"] = True
            d["fresh_hashseed"] = op.get("hashseed", 4242)
            raise _Forwarded(v["clause"], d)
        if res.get("status") == "harness_error":
            raise HarnessError(res.get("error"))
        if res.get("status") == "excluded":
            raise _Excluded(res)
        return ["resumed", res.get("digest")]

    # ------------------------------------------------------------------ ops: expression pickling (C18)
    def op_pickle_expr(self, op):
        e = op["e"]
        self.used_specs = [e]
        if self.dry:
            return ["dry"]
        a = self.ast(e)
        try:
            b = pickle.loads(pickle.dumps(a, op.get("proto", pickle.HIGHEST_PROTOCOL)))
        except Exception as ex:  # noqa: BLE001
            raise Violation("pickle-failed", {"h": None, "cls": None, "op": op["op"], "exc": self.exc_detail(ex)}) from None
        if b is not a:
            raise Violation("unpickled-expression-not-identical", {"h": None, "cls": None, "op": op["op"], "e": e})
        return ["same"]


class _Skip(Exception):
    pass


class _GaveUp(Exception):
    pass


class _Forwarded(Violation):
    """a violation found by the fresh interpreter that continued this history"""


class _Excluded(Exception):
    def __init__(self, res):
        super().__init__("excluded")
        self.res = res


class _Unbuildable(Exception):
    pass


def _pv(v):
    """a value claripy returned: strings stay strings"""
    return v if isinstance(v, str) else int(v)


def _jsonable(o):
    if isinstance(o, (set, frozenset)):
        return sorted(_jsonable(x) for x in o)
    if isinstance(o, tuple):
        return [_jsonable(x) for x in o]
    if isinstance(o, (int, str, bool, float)) or o is None:
        return o
    if isinstance(o, list):
        return [_jsonable(x) for x in o]
    return repr(o)[:120]
