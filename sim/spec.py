"""Specification language for expressions: JSON trees with three independent interpreters.

  1. evaluator  -- compile_spec(): plain-Python SMT-LIB semantics (compiled to a lambda)
  2. claripy    -- build_claripy(): claripy's public constructors/operators
  3. z3 ref     -- build_z3ref(): z3py in a separate Context that claripy never sees

A spec is a nested list:  ["var", name] | ["const", value, width] | ["true"] | ["false"]
  BV  binary : add sub mul udiv urem sdiv srem and or xor shl lshr ashr
  BV  unary  : not neg
  BV  other  : ["extract", hi, lo, x] ["concat", x, y] ["zext", n, x] ["sext", n, x] ["ite", c, x, y]
  Bool cmp   : eq ne ult ule ugt uge slt sle sgt sge      (BV x BV -> Bool)
  Bool       : ["band", p, q, ...] ["bor", p, q, ...] ["bnot", p] ["bite", c, p, q] ["beq", p, q]
  String     : ["sconst", text] ["sconcat", s, t] ["sreplace", s, pat, rep] ["substr", i, n, s]  (i, n: Python ints)
  Bool (str) : ["seq", s, t] ["sne", s, t] ["scontains", s, t] ["sprefix", p, s] ["ssuffix", p, s]
Variables: dict name -> width (0 = Bool, -1 = String).
"""
from __future__ import annotations

BV_BIN = ("add", "sub", "mul", "udiv", "urem", "sdiv", "srem", "and", "or", "xor", "shl", "lshr", "ashr")
BV_UN = ("not", "neg")
CMP = ("eq", "ne", "ult", "ule", "ugt", "uge", "slt", "sle", "sgt", "sge")
STR_OPS = ("sconst", "sconcat", "sreplace", "substr")
STR_PRED = ("seq", "sne", "scontains", "sprefix", "ssuffix")


class SpecError(Exception):
    pass


# ------------------------------------------------------------------ widths

def width_of(spec, variables) -> int:
    """0 for Bool, else bit width."""
    op = spec[0]
    if op == "var":
        return variables[spec[1]]
    if op == "const":
        return spec[2]
    if op in ("true", "false", "band", "bor", "bnot", "bite", "beq") or op in CMP or op in STR_PRED:
        return 0
    if op in STR_OPS:
        return -1
    if op in BV_BIN or op in BV_UN:
        return width_of(spec[1], variables)
    if op == "extract":
        return spec[1] - spec[2] + 1
    if op == "concat":
        return width_of(spec[1], variables) + width_of(spec[2], variables)
    if op in ("zext", "sext"):
        return spec[1] + width_of(spec[2], variables)
    if op == "noelim":
        return width_of(spec[1], variables)
    if op == "ite":
        return width_of(spec[2], variables)
    raise SpecError(f"unknown op {op}")


def spec_vars(spec, acc=None):
    if acc is None:
        acc = set()
    if spec[0] == "var":
        acc.add(spec[1])
    else:
        for a in spec[1:]:
            if isinstance(a, list):
                spec_vars(a, acc)
    return acc


def spec_size(spec) -> int:
    return 1 + sum(spec_size(a) for a in spec[1:] if isinstance(a, list))


# ------------------------------------------------------------------ 1. evaluator

def _sg(a, w):
    return a - (1 << w) if (a >> (w - 1)) & 1 else a


def _udiv(a, b, w):
    return ((1 << w) - 1) if b == 0 else a // b


def _urem(a, b, w):
    return a if b == 0 else a % b


def _sdiv(a, b, w):
    sa, sb = _sg(a, w), _sg(b, w)
    if sb == 0:
        return ((1 << w) - 1) if sa >= 0 else 1
    q = abs(sa) // abs(sb)
    if (sa < 0) != (sb < 0):
        q = -q
    return q & ((1 << w) - 1)


def _srem(a, b, w):
    sa, sb = _sg(a, w), _sg(b, w)
    if sb == 0:
        return a
    r = abs(sa) % abs(sb)
    if sa < 0:
        r = -r
    return r & ((1 << w) - 1)


def _shl(a, b, w):
    return 0 if b >= w else (a << b) & ((1 << w) - 1)


def _lshr(a, b, w):
    return 0 if b >= w else a >> b


def _ashr(a, b, w):
    sa = _sg(a, w)
    if b >= w:
        b = w - 1
    return (sa >> b) & ((1 << w) - 1)


def _srepl(a, p, r):
    return r + a if p == "" else a.replace(p, r, 1)


def _substr(a, i, n):
    return a[i:i + n] if 0 <= i < len(a) and n > 0 else ""


_ENV = {"_srepl": _srepl, "_substr": _substr, "_sg": _sg, "_udiv": _udiv, "_urem": _urem, "_sdiv": _sdiv, "_srem": _srem, "_shl": _shl, "_lshr": _lshr,
        "_ashr": _ashr}


def _src(spec, variables):
    op = spec[0]
    if op == "var":
        n = spec[1]
        if n not in variables:
            raise SpecError(f"unknown var {n}")
        return (f"(v_{n} != 0)" if variables[n] == 0 else f"v_{n}"), variables[n]
    if op == "ite" and _src(spec[2], variables)[1] == -1:
        c, wc = _src(spec[1], variables)
        a, w = _src(spec[2], variables)
        b, w2 = _src(spec[3], variables)
        if wc != 0 or w2 != -1:
            raise SpecError("bad string ite")
        return f"({a} if {c} else {b})", -1
    if op == "const":
        return str(spec[1] & ((1 << spec[2]) - 1)), spec[2]
    if op == "noelim":  # the same value; for claripy: an annotation that keeps the node from being folded away
        return _src(spec[1], variables)
    if op == "sconst":
        return repr(str(spec[1])), -1
    if op in ("sconcat", "sreplace", "substr") or op in STR_PRED:
        subs = [_src(x, variables) for x in spec[1:] if isinstance(x, list)]
        if any(w != -1 for _, w in subs):
            raise SpecError(f"string op {op} on a non-string")
        a = [c for c, _ in subs]
        if op == "sconcat":
            return f"({a[0]} + {a[1]})", -1
        if op == "sreplace":
            return f"_srepl({a[0]}, {a[1]}, {a[2]})", -1
        if op == "substr":
            return f"_substr({a[0]}, {int(spec[1])}, {int(spec[2])})", -1
        if op == "seq":
            return f"({a[0]} == {a[1]})", 0
        if op == "sne":
            return f"({a[0]} != {a[1]})", 0
        if op == "scontains":
            return f"({a[1]} in {a[0]})", 0
        if op == "sprefix":
            return f"({a[1]}.startswith({a[0]}))", 0
        return f"({a[1]}.endswith({a[0]}))", 0
    if op == "true":
        return "True", 0
    if op == "false":
        return "False", 0
    if op in BV_BIN:
        a, w = _src(spec[1], variables)
        b, w2 = _src(spec[2], variables)
        if w != w2 or w == 0:
            raise SpecError(f"width mismatch in {op}: {w} vs {w2}")
        m = (1 << w) - 1
        if op == "add":
            return f"(({a} + {b}) & {m})", w
        if op == "sub":
            return f"(({a} - {b}) & {m})", w
        if op == "mul":
            return f"(({a} * {b}) & {m})", w
        if op == "and":
            return f"({a} & {b})", w
        if op == "or":
            return f"({a} | {b})", w
        if op == "xor":
            return f"({a} ^ {b})", w
        return f"_{op}({a}, {b}, {w})", w
    if op in BV_UN:
        a, w = _src(spec[1], variables)
        if w == 0:
            raise SpecError("bv unary on bool")
        m = (1 << w) - 1
        return (f"({a} ^ {m})" if op == "not" else f"((-{a}) & {m})"), w
    if op == "extract":
        hi, lo = spec[1], spec[2]
        a, w = _src(spec[3], variables)
        if not (0 <= lo <= hi < w):
            raise SpecError("bad extract")
        return f"(({a} >> {lo}) & {(1 << (hi - lo + 1)) - 1})", hi - lo + 1
    if op == "concat":
        a, w = _src(spec[1], variables)
        b, w2 = _src(spec[2], variables)
        if w == 0 or w2 == 0:
            raise SpecError("concat of bool")
        return f"(({a} << {w2}) | {b})", w + w2
    if op == "zext":
        a, w = _src(spec[2], variables)
        return a, w + spec[1]
    if op == "sext":
        a, w = _src(spec[2], variables)
        nw = w + spec[1]
        return f"(_sg({a}, {w}) & {(1 << nw) - 1})", nw
    if op == "ite":
        c, wc = _src(spec[1], variables)
        a, w = _src(spec[2], variables)
        b, w2 = _src(spec[3], variables)
        if wc != 0 or w != w2 or w == 0:
            raise SpecError("bad ite")
        return f"({a} if {c} else {b})", w
    if op in CMP:
        a, w = _src(spec[1], variables)
        b, w2 = _src(spec[2], variables)
        if w != w2 or w == 0:
            raise SpecError(f"width mismatch in {op}")
        if op == "eq":
            return f"({a} == {b})", 0
        if op == "ne":
            return f"({a} != {b})", 0
        pyop = {"lt": "<", "le": "<=", "gt": ">", "ge": ">="}[op[1:]]
        if op[0] == "u":
            return f"({a} {pyop} {b})", 0
        return f"(_sg({a}, {w}) {pyop} _sg({b}, {w}))", 0
    if op in ("band", "bor"):
        parts = []
        for s in spec[1:]:
            c, w = _src(s, variables)
            if w != 0:
                raise SpecError("bool op on bv")
            parts.append(c)
        if not parts:
            raise SpecError("empty bool op")
        j = " and " if op == "band" else " or "
        return "(" + j.join(parts) + ")", 0
    if op == "bnot":
        c, w = _src(spec[1], variables)
        if w != 0:
            raise SpecError("bnot on bv")
        return f"(not {c})", 0
    if op == "beq":
        a, w = _src(spec[1], variables)
        b, w2 = _src(spec[2], variables)
        if w != 0 or w2 != 0:
            raise SpecError("beq on bv")
        return f"(bool({a}) == bool({b}))", 0
    if op == "bite":
        c, wc = _src(spec[1], variables)
        a, w = _src(spec[2], variables)
        b, w2 = _src(spec[3], variables)
        if wc or w or w2:
            raise SpecError("bad bite")
        return f"({a} if {c} else {b})", 0
    raise SpecError(f"unknown op {op}")


_compile_cache: dict = {}


def compile_spec(spec, variables, order):
    """-> function(*values in `order`) returning int (BV) or bool (Bool)."""
    key = (repr(spec), tuple(order), tuple(sorted(variables.items())))
    f = _compile_cache.get(key)
    if f is None:
        code, _ = _src(spec, variables)
        args = ", ".join(f"v_{n}" for n in order)
        f = eval(f"lambda {args}: {code}", dict(_ENV))  # noqa: S307  (source generated above from a checked grammar)
        if len(_compile_cache) > 20000:
            _compile_cache.clear()
        _compile_cache[key] = f
    return f


# ------------------------------------------------------------------ 2. claripy builder

def build_claripy(spec, variables, claripy):
    op = spec[0]
    if op == "var":
        w = variables[spec[1]]
        if w == 0:
            return claripy.BoolS(spec[1], explicit_name=True)
        if w == -1:
            return claripy.StringS(spec[1], explicit_name=True)
        return claripy.BVS(spec[1], w, explicit_name=True)
    if op == "noelim":
        return build_claripy(spec[1], variables, claripy).annotate(claripy.annotation.SimplificationAvoidanceAnnotation())
    if op == "sconst":
        return claripy.StringV(str(spec[1]))
    if op == "sconcat":
        return claripy.StrConcat(build_claripy(spec[1], variables, claripy), build_claripy(spec[2], variables, claripy))
    if op == "sreplace":
        return claripy.StrReplace(*[build_claripy(x, variables, claripy) for x in spec[1:]])
    if op == "substr":
        return claripy.StrSubstr(claripy.BVV(spec[1], 64), claripy.BVV(spec[2], 64), build_claripy(spec[3], variables, claripy))
    if op in STR_PRED:
        a_, b_ = build_claripy(spec[1], variables, claripy), build_claripy(spec[2], variables, claripy)
        if op == "seq":
            return a_ == b_
        if op == "sne":
            return a_ != b_
        if op == "scontains":
            return claripy.StrContains(a_, b_)
        if op == "sprefix":
            return claripy.StrPrefixOf(a_, b_)
        return claripy.StrSuffixOf(a_, b_)
    if op == "const":
        return claripy.BVV(spec[1] & ((1 << spec[2]) - 1), spec[2])
    if op == "true":
        return claripy.true()
    if op == "false":
        return claripy.false()
    B = lambda s: build_claripy(s, variables, claripy)  # noqa: E731
    if op in BV_BIN:
        a, b = B(spec[1]), B(spec[2])
        if op == "add":
            return a + b
        if op == "sub":
            return a - b
        if op == "mul":
            return a * b
        if op == "udiv":
            return a // b
        if op == "urem":
            return a % b
        if op == "sdiv":
            return a.SDiv(b)
        if op == "srem":
            return a.SMod(b)
        if op == "and":
            return a & b
        if op == "or":
            return a | b
        if op == "xor":
            return a ^ b
        if op == "shl":
            return a << b
        if op == "lshr":
            return claripy.LShR(a, b)
        if op == "ashr":
            return a >> b
    if op == "not":
        return ~B(spec[1])
    if op == "neg":
        return -B(spec[1])
    if op == "extract":
        return claripy.Extract(spec[1], spec[2], B(spec[3]))
    if op == "concat":
        return claripy.Concat(B(spec[1]), B(spec[2]))
    if op == "zext":
        return claripy.ZeroExt(spec[1], B(spec[2]))
    if op == "sext":
        return claripy.SignExt(spec[1], B(spec[2]))
    if op in ("ite", "bite"):
        return claripy.If(B(spec[1]), B(spec[2]), B(spec[3]))
    if op in CMP:
        a, b = B(spec[1]), B(spec[2])
        if op == "eq":
            return a == b
        if op == "ne":
            return a != b
        return getattr(claripy, op.upper())(a, b)
    if op == "band":
        return claripy.And(*[B(s) for s in spec[1:]])
    if op == "bor":
        return claripy.Or(*[B(s) for s in spec[1:]])
    if op == "bnot":
        return claripy.Not(B(spec[1]))
    if op == "beq":
        return B(spec[1]) == B(spec[2])
    raise SpecError(f"unknown op {op}")


# ------------------------------------------------------------------ 3. reference z3 builder (own context)

_ref_ctx = None


def ref_ctx():
    global _ref_ctx
    if _ref_ctx is None:
        import z3

        _ref_ctx = z3.Context()
    return _ref_ctx


def build_z3ref(spec, variables, ctx=None):
    import z3

    if ctx is None:
        ctx = ref_ctx()
    op = spec[0]
    if op == "var":
        w = variables[spec[1]]
        if w == -1:
            return z3.String(spec[1], ctx)
        return z3.Bool(spec[1], ctx) if w == 0 else z3.BitVec(spec[1], w, ctx)
    if op == "noelim":
        return build_z3ref(spec[1], variables, ctx)
    if op == "sconst":
        return z3.StringVal(str(spec[1]), ctx)
    if op == "sconcat":
        return z3.Concat(build_z3ref(spec[1], variables, ctx), build_z3ref(spec[2], variables, ctx))
    if op == "sreplace":
        return z3.Replace(*[build_z3ref(x, variables, ctx) for x in spec[1:]])
    if op == "substr":
        return z3.SubString(build_z3ref(spec[3], variables, ctx), z3.IntVal(spec[1], ctx), z3.IntVal(spec[2], ctx))
    if op in STR_PRED:
        a_, b_ = build_z3ref(spec[1], variables, ctx), build_z3ref(spec[2], variables, ctx)
        return {"seq": lambda: a_ == b_, "sne": lambda: a_ != b_, "scontains": lambda: z3.Contains(a_, b_),
                "sprefix": lambda: z3.PrefixOf(a_, b_), "ssuffix": lambda: z3.SuffixOf(a_, b_)}[op]()
    if op == "const":
        return z3.BitVecVal(spec[1] & ((1 << spec[2]) - 1), spec[2], ctx)
    if op == "true":
        return z3.BoolVal(True, ctx)
    if op == "false":
        return z3.BoolVal(False, ctx)
    B = lambda s: build_z3ref(s, variables, ctx)  # noqa: E731
    if op in BV_BIN:
        a, b = B(spec[1]), B(spec[2])
        return {
            "add": lambda: a + b, "sub": lambda: a - b, "mul": lambda: a * b, "udiv": lambda: z3.UDiv(a, b),
            "urem": lambda: z3.URem(a, b), "sdiv": lambda: a / b, "srem": lambda: z3.SRem(a, b),
            "and": lambda: a & b, "or": lambda: a | b, "xor": lambda: a ^ b, "shl": lambda: a << b,
            "lshr": lambda: z3.LShR(a, b), "ashr": lambda: a >> b,
        }[op]()
    if op == "not":
        return ~B(spec[1])
    if op == "neg":
        return -B(spec[1])
    if op == "extract":
        return z3.Extract(spec[1], spec[2], B(spec[3]))
    if op == "concat":
        return z3.Concat(B(spec[1]), B(spec[2]))
    if op == "zext":
        return z3.ZeroExt(spec[1], B(spec[2]))
    if op == "sext":
        return z3.SignExt(spec[1], B(spec[2]))
    if op in ("ite", "bite"):
        return z3.If(B(spec[1]), B(spec[2]), B(spec[3]), ctx)
    if op in CMP:
        a, b = B(spec[1]), B(spec[2])
        return {
            "eq": lambda: a == b, "ne": lambda: a != b, "ult": lambda: z3.ULT(a, b), "ule": lambda: z3.ULE(a, b),
            "ugt": lambda: z3.UGT(a, b), "uge": lambda: z3.UGE(a, b), "slt": lambda: a < b, "sle": lambda: a <= b,
            "sgt": lambda: a > b, "sge": lambda: a >= b,
        }[op]()
    if op == "band":
        return z3.And(*[B(s) for s in spec[1:]])
    if op == "bor":
        return z3.Or(*[B(s) for s in spec[1:]])
    if op == "bnot":
        return z3.Not(B(spec[1]))
    if op == "beq":
        return B(spec[1]) == B(spec[2])
    raise SpecError(f"unknown op {op}")


def claripy_matches_spec(ast, spec, variables, claripy) -> bool | None:
    """Alphabet filter (DESIGN 3.1): is the AST claripy built equivalent to the spec's z3 reference term?
    Uses claripy's own AST->Z3 translation, moved into the reference context.  None = undecided."""
    import z3

    ctx = ref_ctx()
    try:
        mine = claripy.backends.z3.convert(ast)
    except Exception:  # noqa: BLE001
        return None
    if isinstance(mine, bool):
        mine = z3.BoolVal(mine, ctx)
    elif isinstance(mine, int):
        return None
    else:
        mine = mine.translate(ctx)
    ref = build_z3ref(spec, variables, ctx)
    s = z3.Solver(ctx=ctx)
    s.set("timeout", 5000)
    try:
        s.add(mine != ref)
    except z3.Z3Exception:
        return False  # sort mismatch
    r = s.check()
    if r == z3.unsat:
        return True
    if r == z3.sat:
        return False
    return None
