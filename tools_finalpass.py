#!/venv/bin/python
"""Run the registered quick check of every seeded change's target property against that change, with the checks and the
repaired tree as they are NOW, and record the result in seeded/<id>/meta.json ("final_pass").
  tools_finalpass.py [id ...]      (scratch worktree of /repo HEAD under /tmp, removed afterwards; /repo is never touched)"""
import json, os, shutil, subprocess, sys, time

root = os.path.join(os.path.dirname(os.path.abspath(__file__)), "seeded")
args = sys.argv[1:]
other = None
if "--check" in args:  # run ANOTHER property's check against the change (recorded as final_pass_<Cxx>)
    i = args.index("--check")
    other = args[i + 1]
    del args[i:i + 2]
ids = args or sorted(os.listdir(root))
vcommit = subprocess.check_output(["git", "-C", "/verif", "log", "--format=%h", "-1"]).decode().strip()
rcommit = subprocess.check_output(["git", "-C", "/repo", "log", "--format=%h", "-1"]).decode().strip()
for sid in ids:
    d = os.path.join(root, sid)
    mf = os.path.join(d, "meta.json")
    if not os.path.exists(mf):
        continue
    meta = json.load(open(mf))
    prop = other or meta["breaks_property"]
    wt = f"/tmp/fp_{os.getpid()}"
    subprocess.check_call(["git", "-C", "/repo", "worktree", "add", "-q", "--detach", wt, "HEAD"])
    res = {"verif_commit": vcommit, "repo_commit": rcommit, "check": prop}
    try:
        ap = subprocess.run(["git", "-C", wt, "apply", os.path.join(d, "patch.diff")], capture_output=True, text=True)
        if ap.returncode != 0:
            res.update(applies=False, note="the patch no longer applies to the repaired tree (a later fix: commit touched the same lines)")
        else:
            t = time.time()
            p = subprocess.run(["/venv/bin/python", "/verif/verif.py", prop, "--tier", "quick"], env=dict(os.environ, VERIF_REPO=wt),
                               capture_output=True, text=True, cwd="/verif", timeout=3000)
            lines = [l for l in p.stdout.splitlines() if l.startswith(("runs=", "VIOLATION", "  signature"))]
            res.update(applies=True, detected=p.returncode == 1, exit_code=p.returncode, wall_s=round(time.time() - t, 1),
                       first_lines=[l[:240] for l in lines[:3]])
    finally:
        subprocess.call(["git", "-C", "/repo", "worktree", "remove", "--force", wt])
        for f in os.listdir("/verif/replays"):
            if f.endswith(".json"):
                os.makedirs("/verif/.work/mutant_replays", exist_ok=True)
                shutil.move(os.path.join("/verif/replays", f), os.path.join("/verif/.work/mutant_replays", f))
    meta["final_pass" if other is None else f"final_pass_{other}"] = res
    json.dump(meta, open(mf, "w"), indent=1)
    print(sid, prop, "applies" if res.get("applies") else "DOES-NOT-APPLY", "detected" if res.get("detected") else "NOT-detected", res.get("wall_s"), flush=True)
